--------------------------- MODULE TraceHashSet ---------------------------
(***************************************************************************)
(* Use (C) of HashSet: a sequence of operations executed by the harness on *)
(* the REAL index.HashSet (real file, random 16-byte hashes, batch sizes    *)
(* 1..50) is accepted iff                                                  *)
(*   - no operation failed,                                                *)
(*   - every recorded Has answer is one the statement allows in the state  *)
(*     reached (Allowed), and                                              *)
(*   - every recorded projection of the real file (after Flush / Reopen)   *)
(*     is Sorted, has a fan-out consistent with the entries actually       *)
(*     stored, and stores every surely flushed hash and nothing that was   *)
(*     never added (FileOK).                                               *)
(* The design state s is stepped with the same operators (Add / Flush /    *)
(* Reopen of HashSet) at real scale and its invariants are evaluated in    *)
(* every state; the real file is NOT required to equal s.stored.           *)
(*                                                                         *)
(* Event fields: op, h, bs, fb (reset: first byte of every id), probe,     *)
(* has, proj, ent, efb, fan, err.                                          *)
(***************************************************************************)
EXTENDS HashSet, TraceBase

VARIABLES s, g, fb, bs, l
vars == <<s, g, fb, bs, l>>

Ev == TLog[l]

FanFn(q) == [k \in Bytes |-> q[k + 1]]

(* the real observations of the current line, judged in ghost state gg *)
Observed(gg) ==
  /\ Ev.err = ""
  /\ Len(Ev.has) = Len(Ev.probe)
  /\ \A i \in DOMAIN Ev.probe : Ev.has[i] \in Allowed(gg, Ev.probe[i])
  /\ Ev.proj => /\ Ev.trail = 0
                /\ Len(Ev.fan) = MaxByte + 1
                /\ Len(Ev.efb) = Len(Ev.ent)
                /\ Sorted(Ev.ent)
                /\ FanoutConsistentOn(Ev.efb, FanFn(Ev.fan))
                /\ FileOK(Ev.ent, gg)

(* the design gives allowed answers for the same probes *)
DesignAnswers(ss, gg) == \A i \in DOMAIN Ev.probe : Has(ss, fb, Ev.probe[i]) \in Allowed(gg, Ev.probe[i])

TReset == /\ Ev.op = "reset"
          /\ fb' = Ev.fb /\ bs' = Ev.bs
          /\ s' = Empty /\ g' = G0

TAdd == /\ Ev.op = "add"
        /\ Ev.h \in DOMAIN fb
        /\ s' = Add(s, fb, bs, Ev.h, TRUE)
        /\ g' = GAdd(g, Ev.h)
        /\ UNCHANGED <<fb, bs>>
        /\ Observed(g') /\ DesignAnswers(s', g')

TFlush == /\ Ev.op = "flush"
          /\ s' = Flush(s, fb)
          /\ g' = GFlush(g)
          /\ UNCHANGED <<fb, bs>>
          /\ Observed(g') /\ DesignAnswers(s', g')

(* a flush that failed before it wrote anything (its first read of the file returned an error) and *)
(* reported the failure: nothing is known to have changed, nothing is judged until the next flush   *)
TFlushFail == /\ Ev.op = "flushfail"
              /\ UNCHANGED <<s, g, fb, bs>>

TReopen == /\ Ev.op = "reopen"
           /\ s' = Reopen(s)
           /\ g' = GReopen(g)
           /\ UNCHANGED <<fb, bs>>
           /\ Observed(g') /\ DesignAnswers(s', g')

Init == s = Empty /\ g = G0 /\ fb = <<>> /\ bs = 1 /\ l = 1
Next == /\ l <= Len(TLog)
        /\ l' = l + 1
        /\ (TReset \/ TAdd \/ TFlush \/ TFlushFail \/ TReopen)
Spec == Init /\ [][Next]_vars

Constr == Mark(l)

Inv == /\ DesignSorted(s)
       /\ FanoutConsistentOn(FirstBytes(s, fb), s.ffan)
       /\ DesignMemory(s)
       /\ FileOK(s.stored, g)
       /\ DesignFlushedExact(s, g)
=============================================================================
