------------------------------ MODULE Objects ------------------------------
(***************************************************************************)
(* Structural soundness of a stored table (property C03), stated on the    *)
(* projection harness/internal/tbl.Observe makes of a REAL stored table:   *)
(*   rows    recorded row count                                            *)
(*   blocks  per block, the key rank of every row (rank = position of the  *)
(*           key in byte order among the table's keys; equal keys, equal   *)
(*           ranks)                                                        *)
(*   blkidx  per block, one triple <<p, m, pos>> per index entry at        *)
(*           position pos: p = position of the row whose key hashes to the *)
(*           entry's key hash (-1 none), m = 1 iff the entry's row hash is *)
(*           that row's hash and a lookup through the index returns it     *)
(*   blkidxn per block, number of index entries (-1 = index unreadable)    *)
(*   tblidx  per block, rank of the key the table index lists (-1 = not a  *)
(*           key of the table)                                             *)
(*   diagnose issues reported by the repository's own doctor               *)
(***************************************************************************)
EXTENDS Integers, Sequences, FiniteSets

RECURSIVE SumLen(_)
SumLen(bs) == IF bs = <<>> THEN 0 ELSE Len(Head(bs)) + SumLen(Tail(bs))

RECURSIVE Flat(_)
Flat(bs) == IF bs = <<>> THEN <<>> ELSE Head(bs) \o Flat(Tail(bs))

CountOK(o)  == o.rows = SumLen(o.blocks)

BlockSizesOK(o, B) ==
  LET n == Len(o.blocks) IN
  /\ \A i \in 1..n : Len(o.blocks[i]) >= 1 /\ Len(o.blocks[i]) <= B
  /\ \A i \in 1..(n - 1) : Len(o.blocks[i]) = B

KeysAscending(o) ==
  LET f == Flat(o.blocks) IN \A i \in 1..(Len(f) - 1) : f[i] < f[i + 1]

\* each block's index maps the hash of every row's key to that row's hash and
\* position, and to nothing else
BlockIndexOK(o) ==
  /\ Len(o.blkidx) = Len(o.blocks) /\ Len(o.blkidxn) = Len(o.blocks)
  /\ \A i \in 1..Len(o.blocks) :
       /\ o.blkidxn[i] = Len(o.blocks[i])
       /\ Len(o.blkidx[i]) = Len(o.blocks[i])
       /\ \A j \in 1..Len(o.blkidx[i]) :
            LET e == o.blkidx[i][j] IN e[1] = j - 1 /\ e[2] = 1 /\ e[3] = j - 1

\* the table index lists, per block, the key of its first row
TableIndexOK(o) ==
  /\ o.tblidxok
  /\ Len(o.tblidx) = Len(o.blocks)
  /\ \A i \in 1..Len(o.blocks) : o.tblidx[i] = o.blocks[i][1]

DiagnosisClean(o) == o.diagnose = <<>>

\* the repository's own row readers see the table as it is stored: reading to the end yields the
\* rows of the blocks in order (each identical to the stored row: the projection is -1 otherwise),
\* and positioned reads at block-boundary offsets yield the row at that offset
ReadersOK(o) ==
  LET f == Flat(o.blocks) IN
  /\ o.readers = f
  /\ \A i \in 1..Len(o.seeks)   : o.seeks[i][1] + 1 \in 1..Len(f) /\ f[o.seeks[i][1] + 1] = o.seeks[i][2]
  /\ \A i \in 1..Len(o.rowlist) : o.rowlist[i][1] + 1 \in 1..Len(f) /\ f[o.rowlist[i][1] + 1] = o.rowlist[i][2]

TableWellFormed(o, B) ==
  /\ o.err = ""
  /\ CountOK(o)
  /\ BlockSizesOK(o, B)
  /\ KeysAscending(o)
  /\ BlockIndexOK(o)
  /\ TableIndexOK(o)
  /\ DiagnosisClean(o)
  /\ ReadersOK(o)

\* which clause fails first (for signatures)
FirstBroken(o, B) ==
  IF o.err # "" THEN "unreadable"
  ELSE IF ~CountOK(o) THEN "rowcount"
  ELSE IF ~BlockSizesOK(o, B) THEN "blocksizes"
  ELSE IF ~KeysAscending(o) THEN "keyorder"
  ELSE IF ~BlockIndexOK(o) THEN "blockindex"
  ELSE IF ~TableIndexOK(o) THEN "tableindex"
  ELSE IF ~DiagnosisClean(o) THEN "diagnose"
  ELSE IF ~ReadersOK(o) THEN "readers"
  ELSE "ok"
=============================================================================
