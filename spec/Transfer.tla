------------------------------ MODULE Transfer ------------------------------
(***************************************************************************)
(* Sending commits through packfiles (pkg/api/utils ObjectSender ->        *)
(* pkg/encoding/packfile -> ObjectReceiver) as property C07 states it.     *)
(*                                                                         *)
(* An object store is a record of presence sets over small naturals        *)
(*     c  commits      t  tables        ti table indices                   *)
(*     p  profiles     b  blocks        bi block indices                   *)
(*     x  corrupted variants of tables (only an adversary produces them:   *)
(*        table u with a wrong recorded block-index sum; a different       *)
(*        object with a different identifier, never acceptable)            *)
(* ti/p are named after their table, bi after its block.                   *)
(*                                                                         *)
(* A repository description R is a record                                  *)
(*     n    commits are 1..n                                               *)
(*     par  [1..n -> SUBSET 1..n]   parents (earlier commits)              *)
(*     tab  [1..n -> table]         the table a commit names               *)
(*     blk  [table -> SUBSET block] blocks a table object lists            *)
(* An object on the wire is <<kind, id>>, kind in "b", "t", "xt", "c".     *)
(*                                                                         *)
(* Part 1 is the statement: what the receiver may accept (Acceptable),     *)
(* what accepting stores (Apply), what a whole stream does (RecvSeq: the   *)
(* first unacceptable object ends the session and stores NOTHING), what a  *)
(* completed send must have produced (Final) and when a store is sound     *)
(* (TablesComplete: every table present is usable - C03).                  *)
(* Part 2 is the design, one action per step of the code.                  *)
(* Part 3 names the deviation of the pinned tree (DESIGN.md 8 #9).         *)
(***************************************************************************)
EXTENDS Naturals, FiniteSets, Sequences

ObjKinds == {"c", "t", "ti", "p", "b", "bi", "x"}
NoObjs   == [c |-> {}, t |-> {}, ti |-> {}, p |-> {}, b |-> {}, bi |-> {}, x |-> {}]
Sub(A, B)   == \A k \in ObjKinds : A[k] \subseteq B[k]
Join(A, B)  == [k \in ObjKinds |-> A[k] \cup B[k]]
Range(s)    == {s[i] : i \in 1..Len(s)}
NoObj       == <<"", 0>>

BlocksOf(R, T) == UNION {R.blk[u] : u \in T}

-----------------------------------------------------------------------------
(* Part 1 - the statement *)

(* the receiver may accept o into store d: a block always (its content is   *)
(* validated and it is stored under the hash of that content), a table only *)
(* when every block it lists is there (its indices are rebuilt from them    *)
(* and must reproduce the recorded block-index sums: never for a corrupted  *)
(* variant), a commit only when every parent is there                       *)
Acceptable(R, d, o) ==
  CASE o[1] = "b"  -> TRUE
    [] o[1] = "t"  -> R.blk[o[2]] \subseteq d.b
    [] o[1] = "xt" -> FALSE
    [] o[1] = "c"  -> R.par[o[2]] \subseteq d.c

(* what accepting stores: a table comes with its rebuilt block indices,     *)
(* table index and profile                                                  *)
Apply(R, d, o) ==
  CASE o[1] = "b" -> [d EXCEPT !.b = @ \cup {o[2]}]
    [] o[1] = "t" -> [d EXCEPT !.t = @ \cup {o[2]}, !.ti = @ \cup {o[2]}, !.p = @ \cup {o[2]},
                               !.bi = @ \cup R.blk[o[2]]]
    [] o[1] = "c" -> [d EXCEPT !.c = @ \cup {o[2]}]

(* a whole stream: objects are taken in order; the first unacceptable one   *)
(* is rejected, nothing of it is stored and nothing after it is looked at   *)
RecvSeq(R, d, seq) ==
  LET F[k \in 0..Len(seq)] ==
        IF k = 0 THEN [d |-> d, acc |-> 0, stop |-> FALSE]
        ELSE LET prev == F[k-1] IN          \* evaluated once per level
             IF prev.stop THEN prev
             ELSE IF Acceptable(R, prev.d, seq[k])
                  THEN [d |-> Apply(R, prev.d, seq[k]), acc |-> k, stop |-> FALSE]
                  ELSE [d |-> prev.d, acc |-> k - 1, stop |-> TRUE]
  IN F[Len(seq)]

(* the sender's order keeps every receiver action enabled *)
OrderOK(R, d, seq) == ~RecvSeq(R, d, seq).stop

(* every table the store reports as present is usable *)
TablesComplete(R, d) ==
  /\ d.x = {}
  /\ \A u \in d.t : /\ u \in d.ti /\ u \in d.p
                    /\ R.blk[u] \subseteq d.b /\ R.blk[u] \subseteq d.bi

(* A send: commits S (a parent-first sequence), tables wanted tts, commits  *)
(* the two sides are known to share (common), from store s into store d.    *)
(* What the sender may assume (Pre): the order is parent-first, parents not *)
(* sent are at the destination, and so are the shared commits with their    *)
(* tables complete.                                                         *)
Pre(R, s, d, S, tts, common) ==
  /\ \A i \in 1..Len(S) : /\ S[i] \in s.c
                          /\ R.par[S[i]] \subseteq d.c \cup {S[j] : j \in 1..(i-1)}
  /\ common \subseteq d.c \cap s.c
  /\ {R.tab[c] : c \in common} \subseteq d.t
  /\ TablesComplete(R, d)

(* tables that have to be at the destination afterwards: those of the sent  *)
(* commits that were asked for and that the source has                      *)
(* (SS is the set of sent commits)                                          *)
Wanted(R, s, SS, tts) == ({R.tab[c] : c \in SS} \cap tts) \cap s.t

Final(R, s, d, SS, tts) ==
  LET W == Wanted(R, s, SS, tts) IN
  Join(d, [c |-> SS, t |-> W, ti |-> W, p |-> W,
           b |-> BlocksOf(R, W), bi |-> BlocksOf(R, W), x |-> {}])

(* nothing is invented: whatever else arrives belongs to the sent commits *)
Upper(R, s, d, SS) ==
  LET A == {R.tab[c] : c \in SS} \cap s.t IN
  Join(d, [c |-> SS, t |-> A, ti |-> A, p |-> A,
           b |-> BlocksOf(R, A), bi |-> BlocksOf(R, A), x |-> {}])

-----------------------------------------------------------------------------
(* Part 3 (used by part 2 and by the trace specification) - the deviation   *)
(* "tableFirst": the receiver stores a table object BEFORE re-indexing it;  *)
(* when the re-indexing fails (a block is missing, a rebuilt block-index    *)
(* sum differs from the recorded one) the table is rejected with an error   *)
(* yet stays stored, without table index and profile.                       *)

CONSTANT KnownDeviations      \* {} in every model-checking configuration

RejectedAsCoded(R, before, o, after) ==
  /\ o[1] \in {"t", "xt"}
  /\ ~Acceptable(R, before, o)
  /\ after.c = before.c /\ after.ti = before.ti /\ after.p = before.p /\ after.b = before.b
  /\ IF o[1] = "t" THEN after.t = before.t \cup {o[2]} /\ after.x = before.x
                   ELSE after.x = before.x \cup {o[2]} /\ after.t = before.t
  /\ before.bi \subseteq after.bi
  /\ after.bi \subseteq before.bi \cup (R.blk[o[2]] \cap before.b)

(* block indices of blocks that ARE there may have been rebuilt before the  *)
(* rejection; nothing refers to them and the statement is silent about them *)
RejectedClean(R, before, o, after) ==
  /\ \A k \in ObjKinds \ {"bi"} : after[k] = before[k]
  /\ before.bi \subseteq after.bi
  /\ after.bi \subseteq before.bi \cup
       (IF o[1] \in {"t", "xt"} THEN R.blk[o[2]] \cap before.b ELSE {})

-----------------------------------------------------------------------------
(* Part 2 - the design, step by step as object_sender.go / object_receiver.go do it *)

VARIABLES R,             \* repository description (never changes)
          max,           \* packfile limit, in objects (every object has size 1)
          src, d0,       \* source store; destination store at the start
          dst,           \* destination store
          toSend,        \* commits still to enqueue, parent-first
          tablesToSend,
          commonTables, commonBlocks,
          objq,          \* objects enqueued, not yet written
          cur,           \* commit whose table is being enqueued (0 = none)
          pack,          \* packfile being written: [open, objs, size]
          npacks,
          sent,          \* every object written so far, in order
          wire,          \* objects of the closed packfile not yet taken by the receiver
          senderDone,    \* what WriteObjects returned for the last packfile
          rejected,      \* the object the receiver refused (NoObj = none)
          pc
vars == <<R, max, src, d0, dst, toSend, tablesToSend, commonTables, commonBlocks, objq, cur, pack,
          npacks, sent, wire, senderDone, rejected, pc>>

NoPack == [open |-> FALSE, objs |-> <<>>, size |-> 0]
Size(o) == 1

(* NewObjectSender: common tables are those of the shared commits, common  *)
(* blocks those of the common tables the source has; then the first commit *)
(* is enqueued                                                             *)
Start(r, s, d, S, tts, common, mx) ==
  /\ R = r /\ max = mx /\ src = s /\ d0 = d /\ dst = d
  /\ toSend = S /\ tablesToSend = tts
  /\ commonTables = {r.tab[c] : c \in common}
  /\ commonBlocks = BlocksOf(r, {r.tab[c] : c \in common} \cap s.t)
  /\ objq = <<>> /\ cur = 0 /\ pack = NoPack /\ npacks = 0 /\ sent = <<>> /\ wire = <<>>
  /\ senderDone = FALSE /\ rejected = NoObj
  /\ pc = "enqueue"

(* an adversary's packfile: the receiver alone, fed an arbitrary order *)
StartAdv(r, s, d, order) ==
  /\ R = r /\ max = 0 /\ src = s /\ d0 = d /\ dst = d
  /\ toSend = <<>> /\ tablesToSend = {} /\ commonTables = {} /\ commonBlocks = {}
  /\ objq = <<>> /\ cur = 0 /\ pack = NoPack /\ npacks = 1 /\ sent = order /\ wire = order
  /\ senderDone = TRUE /\ rejected = NoObj
  /\ pc = "recv"

AfterEnqueue == IF pack.open THEN "check" ELSE "open"

RECURSIVE Orders(_)
Orders(S) == IF S = {} THEN {<<>>}
             ELSE UNION {{<<y>> \o q : q \in Orders(S \ {y})} : y \in S}

EnqueueNextCommit ==
  /\ pc = "enqueue"
  /\ IF toSend = <<>>
     THEN /\ pc' = AfterEnqueue
          /\ UNCHANGED <<toSend, cur, objq>>
     ELSE LET com == Head(toSend) IN
          /\ toSend' = Tail(toSend)
          /\ IF R.tab[com] \in tablesToSend /\ R.tab[com] \notin commonTables
             THEN /\ cur' = com /\ pc' = "table" /\ UNCHANGED objq
             ELSE /\ cur' = 0 /\ objq' = Append(objq, <<"c", com>>) /\ pc' = AfterEnqueue
  /\ UNCHANGED <<R, max, src, d0, dst, tablesToSend, commonTables, commonBlocks, pack, npacks, sent, wire,
                 senderDone, rejected>>

(* new blocks first (in any order), then the table, then the commit; a table *)
(* the source does not have is skipped                                       *)
EnqueueTable ==
  /\ pc = "table"
  /\ LET u == R.tab[cur] IN
     /\ commonTables' = commonTables \cup {u}
     /\ IF u \notin src.t
        THEN /\ objq' = Append(objq, <<"c", cur>>)
             /\ UNCHANGED commonBlocks
        ELSE LET new == R.blk[u] \ commonBlocks IN
             /\ \E ord \in Orders(new) :
                  objq' = objq \o [i \in 1..Len(ord) |-> <<"b", ord[i]>>] \o << <<"t", u>>, <<"c", cur>> >>
             /\ commonBlocks' = commonBlocks \cup new
  /\ cur' = 0 /\ pc' = AfterEnqueue
  /\ UNCHANGED <<R, max, src, d0, dst, toSend, tablesToSend, pack, npacks, sent, wire, senderDone, rejected>>

OpenPack ==
  /\ pc = "open"
  /\ pack' = [open |-> TRUE, objs |-> <<>>, size |-> 0]
  /\ pc' = "loop"
  /\ UNCHANGED <<R, max, src, d0, dst, toSend, tablesToSend, commonTables, commonBlocks, objq, cur, npacks, sent,
                 wire, senderDone, rejected>>

(* every object written exists at the source *)
InStore(s, o) == CASE o[1] = "b" -> o[2] \in s.b [] o[1] = "t" -> o[2] \in s.t [] o[1] = "c" -> o[2] \in s.c
                   [] OTHER -> FALSE

WriteObject ==
  /\ pc = "loop" /\ objq # <<>>
  /\ LET o == Head(objq) IN
     /\ InStore(src, o)
     /\ pack' = [pack EXCEPT !.objs = Append(@, o), !.size = @ + Size(o)]
     /\ sent' = Append(sent, o)
  /\ objq' = Tail(objq)
  /\ pc' = IF Tail(objq) = <<>> THEN "enqueue" ELSE "check"
  /\ UNCHANGED <<R, max, src, d0, dst, toSend, tablesToSend, commonTables, commonBlocks, cur, npacks, wire,
                 senderDone, rejected>>

Close ==
  /\ wire' = pack.objs
  /\ senderDone' = (objq = <<>> /\ toSend = <<>>)
  /\ pack' = NoPack /\ npacks' = npacks + 1
  /\ pc' = "recv"
  /\ UNCHANGED <<R, max, src, d0, dst, toSend, tablesToSend, commonTables, commonBlocks, objq, cur, sent, rejected>>

(* the packfile is closed when its size reaches the limit, or nothing is left *)
ClosePack ==
  /\ \/ pc = "check" /\ (pack.size >= max \/ objq = <<>>)
     \/ pc = "loop" /\ objq = <<>>
  /\ Close

KeepWriting ==
  /\ pc = "check" /\ pack.size < max /\ objq # <<>>
  /\ pc' = "loop"
  /\ UNCHANGED <<R, max, src, d0, dst, toSend, tablesToSend, commonTables, commonBlocks, objq, cur, pack, npacks,
                 sent, wire, senderDone, rejected>>

Accept ==
  /\ Acceptable(R, dst, Head(wire))
  /\ dst' = Apply(R, dst, Head(wire))
  /\ wire' = Tail(wire)
  /\ UNCHANGED <<R, max, src, d0, toSend, tablesToSend, commonTables, commonBlocks, objq, cur, pack, npacks, sent,
                 senderDone, rejected, pc>>

(* validated, stored under the hash of its content *)
RecvBlock  == /\ pc = "recv" /\ wire # <<>> /\ Head(wire)[1] = "b"
              /\ Accept
(* enabled only if every block is there; block indices, table index and profile rebuilt *)
RecvTable  == /\ pc = "recv" /\ wire # <<>> /\ Head(wire)[1] = "t"
              /\ Accept
(* enabled only if every parent is there *)
RecvCommit == /\ pc = "recv" /\ wire # <<>> /\ Head(wire)[1] = "c"
              /\ Accept

(* the first unacceptable object ends the session; NOTHING of it is stored *)
Reject ==
  /\ pc = "recv" /\ wire # <<>>
  /\ ~Acceptable(R, dst, Head(wire))
  /\ rejected' = Head(wire)
  /\ pc' = "rejected"
  /\ UNCHANGED <<R, max, src, d0, dst, toSend, tablesToSend, commonTables, commonBlocks, objq, cur, pack, npacks,
                 sent, wire, senderDone>>

(* the pinned tree *)
RejectAsCoded ==
  /\ "tableFirst" \in KnownDeviations
  /\ pc = "recv" /\ wire # <<>>
  /\ Head(wire)[1] \in {"t", "xt"}
  /\ ~Acceptable(R, dst, Head(wire))
  /\ \E bis \in SUBSET (R.blk[Head(wire)[2]] \cap dst.b) :
       dst' = IF Head(wire)[1] = "t" THEN [dst EXCEPT !.t = @ \cup {Head(wire)[2]}, !.bi = @ \cup bis]
              ELSE [dst EXCEPT !.x = @ \cup {Head(wire)[2]}, !.bi = @ \cup bis]
  /\ rejected' = Head(wire)
  /\ pc' = "rejected"
  /\ UNCHANGED <<R, max, src, d0, toSend, tablesToSend, commonTables, commonBlocks, objq, cur, pack, npacks,
                 sent, wire, senderDone>>

EndPack ==
  /\ pc = "recv" /\ wire = <<>>
  /\ pc' = IF senderDone THEN "done" ELSE "open"
  /\ UNCHANGED <<R, max, src, d0, dst, toSend, tablesToSend, commonTables, commonBlocks, objq, cur, pack, npacks,
                 sent, wire, senderDone, rejected>>

Terminated == pc \in {"done", "rejected"} /\ UNCHANGED vars

Next == EnqueueNextCommit \/ EnqueueTable \/ OpenPack \/ WriteObject \/ ClosePack \/ KeepWriting
        \/ RecvBlock \/ RecvTable \/ RecvCommit \/ Reject \/ RejectAsCoded \/ EndPack \/ Terminated

-----------------------------------------------------------------------------
(* what is checked of the design (use A) *)

(* the sender's order keeps every receiver action enabled *)
OrderAccepted == pc # "rejected" /\ (pc = "recv" /\ wire # <<>> => Acceptable(R, dst, Head(wire)))

(* a commit enters dst only with all parents there, a table only with all blocks *)
NoOrphanStep ==
  /\ \A c \in dst'.c \ dst.c : R.par[c] \subseteq dst.c
  /\ \A u \in dst'.t \ dst.t : R.blk[u] \subseteq dst.b
NoOrphanAccept == [][NoOrphanStep]_vars

(* at every moment every table the destination reports is usable *)
DstSound == TablesComplete(R, dst)

(* nothing ever disappears from the destination *)
DstGrows == Sub(d0, dst)

(* at Done: every sent object is at the destination, the destination is exactly *)
(* what the statement says (whatever the packfile limit was), nothing is left   *)
AtDone ==
  pc = "done" =>
    /\ \A i \in 1..Len(sent) : InStore(dst, sent[i])
    /\ dst = Final(R, src, d0, {sent[i][2] : i \in {j \in 1..Len(sent) : sent[j][1] = "c"}}, tablesToSend)
    /\ toSend = <<>> /\ objq = <<>> /\ wire = <<>>
    /\ rejected = NoObj

(* adversarial streams end where the statement says, with the store the statement says *)
AdvPost(order) ==
  pc \in {"done", "rejected"} =>
    LET r == RecvSeq(R, d0, order) IN
    /\ dst = r.d
    /\ (pc = "rejected") = r.stop
    /\ Len(order) - Len(wire) = r.acc
    /\ r.stop => rejected = order[r.acc + 1]
=============================================================================
