------------------------------- MODULE Ingest -------------------------------
(***************************************************************************)
(* Ingest of a CSV into a table (pkg/sorter + pkg/ingest), properties C01, *)
(* C02, C19 (row level) - the block/index structure is Objects.tla (C03).  *)
(*                                                                         *)
(* CONTRACT (what the statements demand)                                   *)
(*   A row is a tuple of abstract cell values; a key shape selects the key *)
(*   columns in order (none = every column).  The stored table holds one   *)
(*   row per distinct key, in ascending lexicographic order of the key     *)
(*   tuple, and the row at a key is ANY input row carrying that key        *)
(*   (the statement does not say which duplicate survives).                *)
(*                                                                         *)
(* DESIGN (how the code is structured, one operator per critical section)  *)
(*   AddRow/Spill (sorted runs of `run` rows), the k-way merge that takes  *)
(*   the minimum head (earliest run wins ties, in-memory run last), Dedupe *)
(*   against the previous key (initially NO key - not the empty key) and   *)
(*   block emission with the first key of the first KEPT row.  TLC checks  *)
(*   that the design meets the contract for every small input.             *)
(***************************************************************************)
EXTENDS Naturals, Sequences, FiniteSets

CONSTANT B          \* rows per block (255 in wrgl; 2 in the small model)

\* key shapes over rows <<a, b, p>> : which columns form the key, in order
KeyCols(shape) ==
  CASE shape = "n"  -> <<1, 2, 3>>      \* no primary key: every column
    [] shape = "a"  -> <<1>>
    [] shape = "b"  -> <<2>>            \* key column not first
    [] shape = "ab" -> <<1, 2>>
    [] shape = "ba" -> <<2, 1>>
Key(r, shape) == [i \in 1..Len(KeyCols(shape)) |-> r[KeyCols(shape)[i]]]

RECURSIVE LexLess(_, _)
LexLess(s, t) ==
  IF s = <<>> THEN t # <<>>
  ELSE IF t = <<>> THEN FALSE
  ELSE IF Head(s) < Head(t) THEN TRUE
  ELSE IF Head(s) > Head(t) THEN FALSE
  ELSE LexLess(Tail(s), Tail(t))

RECURSIVE SortSet(_)
SortSet(S) ==
  IF S = {} THEN <<>>
  ELSE LET m == CHOOSE x \in S : \A y \in S : x = y \/ LexLess(x, y)
       IN <<m>> \o SortSet(S \ {m})

Range(s) == {s[i] : i \in 1..Len(s)}
KeysOf(input, shape) == {Key(input[i], shape) : i \in 1..Len(input)}

-----------------------------------------------------------------------------
(* CONTRACT *)

\* position i of the stored table may hold any input row with the i-th smallest key
Expected(input, shape) ==
  LET sk == SortSet(KeysOf(input, shape)) IN
  [i \in 1..Len(sk) |-> {input[j] : j \in {j \in 1..Len(input) : Key(input[j], shape) = sk[i]}}]

\* rows (a sequence) is an acceptable stored content for input
Lossless(rows, input, shape) ==
  LET e == Expected(input, shape) IN
  /\ Len(rows) = Len(e)
  /\ \A i \in 1..Len(rows) : rows[i] \in e[i]

\* when keys are unique the table is exactly the input row set
UniqueKeys(input, shape) ==
  \A i, j \in 1..Len(input) : i # j => Key(input[i], shape) # Key(input[j], shape)
ExactWhenUnique(rows, input, shape) ==
  UniqueKeys(input, shape) => Range(rows) = Range(input) /\ Len(rows) = Len(input)

StrictlyAscending(rows, shape) ==
  \A i \in 1..(Len(rows) - 1) : LexLess(Key(rows[i], shape), Key(rows[i+1], shape))

-----------------------------------------------------------------------------
(* DESIGN: external sort *)

\* stable insertion sort by key (sort.Slice is not stable; any resolution of ties
\* is a behaviour of the code and the contract accepts all of them)
RECURSIVE InsertSorted(_, _, _)
InsertSorted(r, s, shape) ==
  IF s = <<>> THEN <<r>>
  ELSE IF LexLess(Key(r, shape), Key(Head(s), shape)) THEN <<r>> \o s
  ELSE <<Head(s)>> \o InsertSorted(r, Tail(s), shape)
RECURSIVE SortRows(_, _)
SortRows(s, shape) ==
  IF s = <<>> THEN <<>> ELSE InsertSorted(s[Len(s)], SortRows(SubSeq(s, 1, Len(s) - 1), shape), shape)

\* AddRow + Spill: every `run` rows the in-memory rows are sorted and written out
\* as one chunk; run = 0 means nothing ever spills
RECURSIVE Chunks(_, _, _)
Chunks(input, run, shape) ==
  IF run = 0 \/ Len(input) < run THEN <<>>
  ELSE <<SortRows(SubSeq(input, 1, run), shape)>> \o Chunks(SubSeq(input, run + 1, Len(input)), run, shape)
Current(input, run, shape) ==
  IF run = 0 THEN SortRows(input, shape)
  ELSE SortRows(SubSeq(input, Len(input) - (Len(input) % run) + 1, Len(input)), shape)

\* one merge step: index of the source whose head is minimal; sources 1..n are the
\* chunks in spill order, source n+1 is the in-memory run; a later source wins only
\* if its head is strictly smaller
RECURSIVE MinSrc(_, _, _, _)
MinSrc(srcs, i, best, shape) ==
  IF i > Len(srcs) THEN best
  ELSE IF srcs[i] = <<>> THEN MinSrc(srcs, i + 1, best, shape)
  ELSE IF best = 0 \/ LexLess(Key(Head(srcs[i]), shape), Key(Head(srcs[best]), shape))
       THEN MinSrc(srcs, i + 1, i, shape)
  ELSE MinSrc(srcs, i + 1, best, shape)

RECURSIVE MergeAll(_, _)
MergeAll(srcs, shape) ==
  LET m == MinSrc(srcs, 1, 0, shape) IN
  IF m = 0 THEN <<>>
  ELSE <<Head(srcs[m])>> \o MergeAll([srcs EXCEPT ![m] = Tail(srcs[m])], shape)

\* Dedupe: a row is kept iff its key differs from the previous row's key;
\* before the first row there is NO previous key (prev = <<>>, which is no key: keys have >= 1 component)
RECURSIVE Dedupe(_, _, _)
Dedupe(s, prev, shape) ==
  IF s = <<>> THEN <<>>
  ELSE IF Key(Head(s), shape) = prev THEN Dedupe(Tail(s), prev, shape)
  ELSE <<Head(s)>> \o Dedupe(Tail(s), Key(Head(s), shape), shape)

SortedDistinct(input, run, shape) ==
  Dedupe(MergeAll(Chunks(input, run, shape) \o <<Current(input, run, shape)>>, shape), <<>>, shape)

\* block emission: B rows per block, the block's key is the key of its first kept row
RECURSIVE Cut(_)
Cut(rows) ==
  IF rows = <<>> THEN <<>>
  ELSE IF Len(rows) <= B THEN <<rows>>
  ELSE <<SubSeq(rows, 1, B)>> \o Cut(SubSeq(rows, B + 1, Len(rows)))

TableOf(input, run, shape) ==
  LET blocks == Cut(SortedDistinct(input, run, shape)) IN
  [blocks |-> blocks,
   idx    |-> [i \in 1..Len(blocks) |-> Key(blocks[i][1], shape)],
   rows   |-> Len(SortedDistinct(input, run, shape))]

\* the design meets the contract
DesignConforms(input, run, shape) ==
  LET rows == SortedDistinct(input, run, shape) IN
  /\ Lossless(rows, input, shape)
  /\ ExactWhenUnique(rows, input, shape)
  /\ StrictlyAscending(rows, shape)
  /\ \A c \in Range(Chunks(input, run, shape)) :
       \A i \in 1..(Len(c) - 1) : ~LexLess(Key(c[i+1], shape), Key(c[i], shape))

\* identity depends on content only: every run size gives the same table when keys are unique
RunIndependent(input, shape, runs) ==
  UniqueKeys(input, shape) =>
    \A r1, r2 \in runs : TableOf(input, r1, shape) = TableOf(input, r2, shape)
=============================================================================
