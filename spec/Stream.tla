------------------------------- MODULE Stream -------------------------------
(***************************************************************************)
(* Property C18: decoding a stream does not depend on how the transport    *)
(* chunks it.                                                              *)
(*                                                                         *)
(* 1. The io.Reader CONTRACT as a state machine.  A stream is a total      *)
(*    length; the reader's only state is pos, the number of bytes it has   *)
(*    delivered.  Read(req) may return ANY n in 1..Min(req, remaining);    *)
(*    n = 0 only together with EOF (or for an empty buffer, req = 0);      *)
(*    EOF is reported either TOGETHER WITH the last bytes or on a later    *)
(*    call, and from then on always.  (HTTP bodies, decompressors and TLS  *)
(*    records all make use of every one of these freedoms.)                *)
(*                                                                         *)
(* 2. A decoder reads a PLAN: the sequence of field lengths of the stream  *)
(*    (the field boundaries of the format: Wire!Segs...; a length is known *)
(*    to the decoder once the fields before it are read, so for ONE given  *)
(*    valid stream the plan is fixed).  After the last field a decoder of  *)
(*    an item SEQUENCE (packfile objects, pkt-lines, a commit's parents)   *)
(*    asks for the first `probe` bytes of a further item and must meet a   *)
(*    clean end of stream; a count-delimited decoder (probe = 0) stops by  *)
(*    itself.                                                              *)
(*      "full":   every field is read with io.ReadFull semantics (ask      *)
(*                again for the rest; an EOF that arrives together with    *)
(*                the bytes that complete the field is not an error).      *)
(*      "single": the defect shape - ONE Read per field, its result taken  *)
(*                as the whole field (`n, err := r.Read(b); if err != nil  *)
(*                { return err }`).                                        *)
(*    The decoded result is out (which bytes of the stream became which    *)
(*    field: <<field, start offset, length>>) and end, the end-of-stream   *)
(*    condition ("EOF" clean end met by the probe, "Done" count-delimited, *)
(*    "UnexpectedEOF", "Trailing").                                        *)
(*                                                                         *)
(* 3. Theorem (checked by TLC, use A): for EVERY delivery schedule (every  *)
(*    choice of n and of the EOF placement at every call) the "full"       *)
(*    decoder ends with the result of the whole-buffer delivery.  The      *)
(*    "single" decoder violates it (self-test of the model: the driver     *)
(*    requires TLC to find that counterexample).                           *)
(*                                                                         *)
(* A schedule given as a set of cut points (use B, StreamGen; use C,       *)
(* TraceStream) is the deterministic reader SchedResult: a Read never      *)
(* crosses a cut.  Every such reader is inside the contract                *)
(* (SchedInsideContract).                                                  *)
(***************************************************************************)
EXTENDS Integers, Sequences, FiniteSets

CONSTANTS Plans,      \* the streams explored by the state machine: a set of <<plan, probe>>
          Variant     \* "full" | "single"

VARIABLES sp,         \* the stream being read: <<plan, probe>>
          pos,        \* reader: bytes delivered so far
          d           \* decoder state

Min(a, b) == IF a <= b THEN a ELSE b

Total(plan) == LET f[i \in 0..Len(plan)] == IF i = 0 THEN 0 ELSE f[i - 1] + plan[i] IN f[Len(plan)]

(***************************************************************************)
(* 1. The reader contract                                                  *)
(***************************************************************************)
\* every <<n, eof>> a reader at position p of a stream of `total` bytes may answer to Read(req)
ReadResults(total, p, req) ==
  IF req = 0 THEN {<<0, FALSE>>} \cup (IF p = total THEN {<<0, TRUE>>} ELSE {})
  ELSE IF p = total THEN {<<0, TRUE>>}
  ELSE {r \in (1..Min(req, total - p)) \X BOOLEAN : r[2] => p + r[1] = total}

\* a schedule: cuts \subseteq 1..total-1 (a Read never crosses a cut; what is left of a chunk is
\* delivered by the following calls), ewd = EOF comes together with the last bytes
NextCut(total, cuts, p) ==
  IF p + 1 >= total THEN total
  ELSE IF (p + 1) \in cuts THEN p + 1
  ELSE LET ahead == {c \in cuts : c > p /\ c < total} IN
       IF ahead = {} THEN total ELSE CHOOSE c \in ahead : \A x \in ahead : c <= x
SchedResult(total, cuts, ewd, p, req) ==
  IF req = 0 THEN <<0, FALSE>>
  ELSE IF p = total THEN <<0, TRUE>>
  ELSE LET n == Min(req, NextCut(total, cuts, p) - p) IN <<n, ewd /\ p + n = total>>

SchedInsideContract(total, cuts, ewd) ==
  \A p \in 0..total : \A req \in 0..(total + 1) :
    SchedResult(total, cuts, ewd, p, req) \in ReadResults(total, p, req)

(***************************************************************************)
(* 2. Decoders                                                             *)
(*    state: fi   the field being read (Len(plan) + 1 = the probe)         *)
(*           got  bytes of it obtained so far                              *)
(*           used bytes consumed by completed fields                       *)
(***************************************************************************)
\* fields of length 0 are complete without a call; past the last field a count-delimited decoder is done
RECURSIVE Settle(_, _, _)
Settle(plan, probe, dd) ==
  IF dd.fi <= Len(plan) /\ plan[dd.fi] = 0
  THEN Settle(plan, probe, [dd EXCEPT !.fi = @ + 1, !.out = Append(@, <<dd.fi, dd.used, 0>>)])
  ELSE IF dd.fi = Len(plan) + 1 /\ probe = 0 THEN [dd EXCEPT !.end = "Done"]
  ELSE dd
DecStart(plan, probe) == Settle(plan, probe, [fi |-> 1, got |-> 0, used |-> 0, out |-> <<>>, end |-> ""])

FieldLen(plan, probe, dd) == IF dd.fi <= Len(plan) THEN plan[dd.fi] ELSE probe
\* the size of the next request (>= 1 while the decoder is running)
Want(plan, probe, dd) == FieldLen(plan, probe, dd) - dd.got

FullStep(plan, probe, dd, n, eof) ==
  LET len == FieldLen(plan, probe, dd)
      g == dd.got + n
  IN IF g = len
     THEN IF dd.fi <= Len(plan)
          THEN Settle(plan, probe, [dd EXCEPT !.fi = @ + 1, !.got = 0, !.used = @ + len,
                                              !.out = Append(@, <<dd.fi, dd.used, len>>)])
          ELSE [dd EXCEPT !.got = g, !.end = "Trailing"]          \* a further item begins: not on a valid stream
     ELSE IF eof THEN [dd EXCEPT !.got = g, !.end = IF g = 0 THEN "EOF" ELSE "UnexpectedEOF"]
     ELSE [dd EXCEPT !.got = g]

SingleStep(plan, probe, dd, n, eof) ==
  IF eof THEN [dd EXCEPT !.end = "EOF"]                           \* whatever arrived with the EOF is dropped
  ELSE IF dd.fi <= Len(plan)
  THEN Settle(plan, probe, [dd EXCEPT !.fi = @ + 1, !.used = @ + n,
                                      !.out = Append(@, <<dd.fi, dd.used, n>>)])   \* n < length: the tail is stale
  ELSE [dd EXCEPT !.end = "Trailing"]

Step(v, plan, probe, dd, n, eof) ==
  IF v = "full" THEN FullStep(plan, probe, dd, n, eof) ELSE SingleStep(plan, probe, dd, n, eof)

Result(dd) == <<dd.out, dd.end>>

\* the run of decoder v under a schedule (total = Total(plan), passed in evaluated).
\* (TLC passes operator arguments unevaluated and re-evaluates them inside RECURSIVE operators: the
\*  next position and decoder state are bound through a singleton set, which forces ONE evaluation.)
RECURSIVE Deliver(_, _, _, _, _, _, _, _)
Deliver(v, plan, probe, total, cuts, ewd, p, dd) ==
  IF dd.end # "" THEN dd
  ELSE LET nx == {<<p + r[1], Step(v, plan, probe, dd, r[1], r[2])>> :
                    r \in {SchedResult(total, cuts, ewd, p, Want(plan, probe, dd))}}
       IN CHOOSE res \in {Deliver(v, plan, probe, total, cuts, ewd, x[1], x[2]) : x \in nx} : TRUE

\* the whole-buffer delivery: one chunk, EOF on a later call
WholeBuffer(plan, probe) ==
  Result(Deliver("full", plan, probe, Total(plan), {}, FALSE, 0, DecStart(plan, probe)))
\* ... which is, in closed form, every field at its offset
Offsets(plan) == [i \in 1..Len(plan) |-> Total(SubSeq(plan, 1, i - 1))]
WholeClosedForm(plan, probe) ==
  << [i \in 1..Len(plan) |-> <<i, Offsets(plan)[i], plan[i]>>], IF probe = 0 THEN "Done" ELSE "EOF" >>

(***************************************************************************)
(* 3. The state machine and the theorem                                    *)
(***************************************************************************)
vars == <<sp, pos, d>>

Init == \E s \in Plans : sp = s /\ pos = 0 /\ d = DecStart(s[1], s[2])

Read(r) == /\ pos' = pos + r[1]
           /\ d' = Step(Variant, sp[1], sp[2], d, r[1], r[2])
           /\ UNCHANGED sp

Next == /\ d.end = ""
        /\ \E r \in ReadResults(Total(sp[1]), pos, Want(sp[1], sp[2], d)) : Read(r)

Spec == Init /\ [][Next]_vars /\ WF_vars(Next)

IsPrefixOf(a, b) == Len(a) <= Len(b) /\ SubSeq(b, 1, Len(a)) = a

ReaderInv == /\ pos \in 0..Total(sp[1])
             /\ d.end = "" => Want(sp[1], sp[2], d) >= 1
             /\ Variant = "full" => d.used + d.got = pos

\* the decoded field sequence and the end-of-stream condition are those of the whole-buffer delivery
ChunkingTheorem == d.end # "" => Result(d) = WholeBuffer(sp[1], sp[2])
\* ... and no field is ever handed out differently on the way
PrefixInv == IsPrefixOf(d.out, WholeBuffer(sp[1], sp[2])[1])
\* the whole-buffer result is every field at its own offset (sanity of the definitions)
WholeInv == WholeBuffer(sp[1], sp[2]) = WholeClosedForm(sp[1], sp[2])
\* every decode ends (each call delivers a byte or the EOF)
Termination == <>(d.end # "")
=============================================================================
