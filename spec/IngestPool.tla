----------------------------- MODULE IngestPool -----------------------------
(***************************************************************************)
(* The worker pool of pkg/ingest/inserter.go (property C16, and the part   *)
(* of C01/C02 that depends on the worker count), one action per critical   *)
(* section of the code:                                                    *)
(*                                                                         *)
(*   producer (sorter goroutine)  Send a block on the bounded channel,     *)
(*                                Close it after the last block            *)
(*   worker w                     Take / SaveBlock / Count / SaveIndex /   *)
(*                                Publish, Exit when the channel is closed *)
(*                                and empty; a failing store write makes   *)
(*                                the worker send on the error channel and *)
(*                                exit                                     *)
(*   caller                       Wait (all workers exited), CloseErr,     *)
(*                                ReadErr, Assemble (sort by offset)       *)
(*                                                                         *)
(* Count and Publish touch state shared by the workers (rowsCount,         *)
(* asyncBlocks).  With UseMutex they are done under the inserter's mutex;  *)
(* with UseMutex = FALSE each is split into a read and a write step - the  *)
(* unsynchronised shape - and TLC finds the lost update (NoLoss fails).    *)
(***************************************************************************)
EXTENDS Naturals, Sequences, FiniteSets

CONSTANTS NW,        \* number of workers
          NB,        \* number of blocks the sorter produces
          Cap,       \* capacity of the block channel (10 in the code)
          UseMutex,  \* TRUE: the repaired code
          Faulty     \* set of <<worker, "blk"|"idx", block>> store writes that fail ({} = none)

Workers == 1..NW

\* fault sets for the configurations (cfg files cannot write tuples): Faulty <- FaultX
FaultNone    == {}
FaultW1Blk   == {<<1, "blk", b>> : b \in 1..NB}                 \* worker 1 fails on whatever block it saves first
FaultW2Idx   == {<<2, "idx", b>> : b \in 2..NB}                 \* worker 2 fails saving an index (not of block 1)
FaultAllBlk  == {<<w, "blk", b>> : w \in Workers, b \in 1..NB}  \* every worker fails at once (producer left blocked)
FaultBlock2  == {<<w, "blk", 2>> : w \in Workers}               \* whoever takes block 2 fails

VARIABLES ch, closed, sent,          \* block channel, closed flag, number of blocks sent
          pc, cur, tmpB, tmpC,       \* per worker: program counter, block in hand, stale reads
          lock,                      \* 0 = free, else the worker holding the mutex
          asyncBlocks, rowsCount,    \* shared by the workers
          errCh, errClosed,          \* error channel (capacity NW), closed by the caller
          caller, result
vars == <<ch, closed, sent, pc, cur, tmpB, tmpC, lock, asyncBlocks, rowsCount, errCh, errClosed, caller, result>>

Rows(b) == 1    \* every block carries one abstract row (counts only)

Init ==
  /\ ch = <<>> /\ closed = FALSE /\ sent = 0
  /\ pc = [w \in Workers |-> "take"] /\ cur = [w \in Workers |-> 0]
  /\ tmpB = [w \in Workers |-> <<>>] /\ tmpC = [w \in Workers |-> 0]
  /\ lock = 0 /\ asyncBlocks = <<>> /\ rowsCount = 0
  /\ errCh = <<>> /\ errClosed = FALSE
  /\ caller = "wait" /\ result = [kind |-> "none", table |-> <<>>, rows |-> 0]

(* ------------------------------ producer ------------------------------ *)
Send == /\ sent < NB /\ ~closed /\ Len(ch) < Cap
        /\ ch' = Append(ch, sent + 1) /\ sent' = sent + 1
        /\ UNCHANGED <<closed, pc, cur, tmpB, tmpC, lock, asyncBlocks, rowsCount, errCh, errClosed, caller, result>>
Close == /\ sent = NB /\ ~closed /\ closed' = TRUE
         /\ UNCHANGED <<ch, sent, pc, cur, tmpB, tmpC, lock, asyncBlocks, rowsCount, errCh, errClosed, caller, result>>

(* ------------------------------- workers ------------------------------- *)
Goto(w, l) == pc' = [pc EXCEPT ![w] = l]
Others == <<ch, closed, sent, cur, tmpB, tmpC, lock, asyncBlocks, rowsCount, errCh, errClosed, caller, result>>

Take(w) == /\ pc[w] = "take" /\ ch # <<>>
           /\ cur' = [cur EXCEPT ![w] = Head(ch)] /\ ch' = Tail(ch) /\ Goto(w, "saveblk")
           /\ UNCHANGED <<closed, sent, tmpB, tmpC, lock, asyncBlocks, rowsCount, errCh, errClosed, caller, result>>
Exit(w) == /\ pc[w] = "take" /\ ch = <<>> /\ closed /\ Goto(w, "exited")
           /\ UNCHANGED Others

\* a failing store write: report on the error channel (never closed yet, never full:
\* capacity NW and each worker sends at most once) and exit
FailAt(w, kind) == <<w, kind, cur[w]>> \in Faulty
Report(w) == /\ ~errClosed /\ Len(errCh) < NW
             /\ errCh' = Append(errCh, w) /\ Goto(w, "exited")
             /\ UNCHANGED <<ch, closed, sent, cur, tmpB, tmpC, lock, asyncBlocks, rowsCount, errClosed, caller, result>>

SaveBlock(w) == /\ pc[w] = "saveblk"
                /\ IF FailAt(w, "blk") THEN Report(w)
                   ELSE Goto(w, IF UseMutex THEN "lockc" ELSE "readc") /\ UNCHANGED Others

\* rowsCount += n
LockC(w)   == /\ pc[w] = "lockc" /\ lock = 0 /\ lock' = w /\ Goto(w, "count")
              /\ UNCHANGED <<ch, closed, sent, cur, tmpB, tmpC, asyncBlocks, rowsCount, errCh, errClosed, caller, result>>
Count(w)   == /\ pc[w] = "count" /\ rowsCount' = rowsCount + Rows(cur[w]) /\ lock' = 0 /\ Goto(w, "saveidx")
              /\ UNCHANGED <<ch, closed, sent, cur, tmpB, tmpC, asyncBlocks, errCh, errClosed, caller, result>>
ReadC(w)   == /\ pc[w] = "readc" /\ tmpC' = [tmpC EXCEPT ![w] = rowsCount] /\ Goto(w, "writec")
              /\ UNCHANGED <<ch, closed, sent, cur, tmpB, lock, asyncBlocks, rowsCount, errCh, errClosed, caller, result>>
WriteC(w)  == /\ pc[w] = "writec" /\ rowsCount' = tmpC[w] + Rows(cur[w]) /\ Goto(w, "saveidx")
              /\ UNCHANGED <<ch, closed, sent, cur, tmpB, tmpC, lock, asyncBlocks, errCh, errClosed, caller, result>>

SaveIndex(w) == /\ pc[w] = "saveidx"
                /\ IF FailAt(w, "idx") THEN Report(w)
                   ELSE Goto(w, IF UseMutex THEN "lockp" ELSE "readp") /\ UNCHANGED Others

\* asyncBlocks = append(asyncBlocks, blk)
LockP(w)   == /\ pc[w] = "lockp" /\ lock = 0 /\ lock' = w /\ Goto(w, "publish")
              /\ UNCHANGED <<ch, closed, sent, cur, tmpB, tmpC, asyncBlocks, rowsCount, errCh, errClosed, caller, result>>
Publish(w) == /\ pc[w] = "publish" /\ asyncBlocks' = Append(asyncBlocks, cur[w]) /\ lock' = 0 /\ Goto(w, "take")
              /\ UNCHANGED <<ch, closed, sent, cur, tmpB, tmpC, rowsCount, errCh, errClosed, caller, result>>
ReadP(w)   == /\ pc[w] = "readp" /\ tmpB' = [tmpB EXCEPT ![w] = asyncBlocks] /\ Goto(w, "writep")
              /\ UNCHANGED <<ch, closed, sent, cur, tmpC, lock, asyncBlocks, rowsCount, errCh, errClosed, caller, result>>
WriteP(w)  == /\ pc[w] = "writep" /\ asyncBlocks' = Append(tmpB[w], cur[w]) /\ Goto(w, "take")
              /\ UNCHANGED <<ch, closed, sent, cur, tmpB, tmpC, lock, rowsCount, errCh, errClosed, caller, result>>

Worker(w) == Take(w) \/ Exit(w) \/ SaveBlock(w) \/ LockC(w) \/ Count(w) \/ ReadC(w) \/ WriteC(w)
             \/ SaveIndex(w) \/ LockP(w) \/ Publish(w) \/ ReadP(w) \/ WriteP(w)

(* -------------------------------- caller ------------------------------- *)
RECURSIVE SortSeq(_)
SortSeq(s) == IF s = <<>> THEN <<>>
              ELSE LET m == CHOOSE i \in 1..Len(s) : \A j \in 1..Len(s) : s[i] <= s[j]
                   IN <<s[m]>> \o SortSeq([k \in 1..(Len(s) - 1) |-> IF k < m THEN s[k] ELSE s[k + 1]])

Wait     == /\ caller = "wait" /\ \A w \in Workers : pc[w] = "exited" /\ caller' = "closeerr"
            /\ UNCHANGED <<ch, closed, sent, pc, cur, tmpB, tmpC, lock, asyncBlocks, rowsCount, errCh, errClosed, result>>
CloseErr == /\ caller = "closeerr" /\ errClosed' = TRUE /\ caller' = "readerr"
            /\ UNCHANGED <<ch, closed, sent, pc, cur, tmpB, tmpC, lock, asyncBlocks, rowsCount, errCh, result>>
ReadErr  == /\ caller = "readerr"
            /\ IF errCh # <<>> THEN result' = [kind |-> "error", table |-> <<>>, rows |-> 0] /\ caller' = "done"
               ELSE UNCHANGED result /\ caller' = "assemble"
            /\ UNCHANGED <<ch, closed, sent, pc, cur, tmpB, tmpC, lock, asyncBlocks, rowsCount, errCh, errClosed>>
Assemble == /\ caller = "assemble"
            /\ result' = [kind |-> "ok", table |-> SortSeq(asyncBlocks), rows |-> rowsCount]
            /\ caller' = "done"
            /\ UNCHANGED <<ch, closed, sent, pc, cur, tmpB, tmpC, lock, asyncBlocks, rowsCount, errCh, errClosed>>

Next == Send \/ Close \/ (\E w \in Workers : Worker(w)) \/ Wait \/ CloseErr \/ ReadErr \/ Assemble
Spec == Init /\ [][Next]_vars /\ WF_vars(Next)
FairSpec == Init /\ [][Next]_vars
            /\ WF_vars(Send) /\ WF_vars(Close) /\ \A w \in Workers : WF_vars(Worker(w))
            /\ WF_vars(Wait) /\ WF_vars(CloseErr) /\ WF_vars(ReadErr) /\ WF_vars(Assemble)

(* ------------------------------ properties ----------------------------- *)
InCS(w) == pc[w] \in {"count", "publish"}
MutualExclusion == \A a, b \in Workers : InCS(a) /\ InCS(b) => a = b
LockConsistent  == UseMutex => \A w \in Workers : InCS(w) <=> lock = w

\* the sequential (one worker) result
Sequential == [kind |-> "ok", table |-> [i \in 1..NB |-> i], rows |-> NB]
NoLoss == (caller = "done" /\ result.kind # "error") => result = Sequential

\* a failing write is reported, a run without failure succeeds
WillFail == \E f \in Faulty : f[3] \in 1..NB
ErrorReported == caller = "done" => (result.kind = "error" <=> errCh # <<>>)
NoSendAfterClose == errClosed => \A w \in Workers : pc[w] = "exited"

\* the caller always returns (the producer may stay blocked on a full channel after
\* every worker failed: a leaked goroutine, not a hang of the caller)
Terminates == <>(caller = "done")
=============================================================================
