------------------------------ MODULE RefsGen ------------------------------
(***************************************************************************)
(* Use (B) of Refs: enumerate behaviours of the ref-store model and print  *)
(* each transition, with the path of operations that leads to it, as one   *)
(* JSON scenario line ("SCN").  With  VIEW View  the path is hidden from   *)
(* the fingerprint, so every (abstract state, operation) pair is printed   *)
(* once: a transition cover of the model's state graph.  Without the view  *)
(* every behaviour up to depth D is printed.                               *)
(***************************************************************************)
EXTENDS Refs, TLC, Json

CONSTANTS D,        \* maximal number of operations in a behaviour
          LogCap,   \* maximal length of one log (keeps the cover finite)
          Small     \* TRUE: reduced alphabet (quick), FALSE: full alphabet

VARIABLES refs, logs, path,
          fs,       \* applicability of the path to the FILE ref store (pkg/ref/fs), see FsStep; not in the view
          fsdirs,   \* names that have been a DIRECTORY of the file store on this path (a name below them was stored):
                    \* the file store leaves emptied directories behind, such a name cannot become a ref again
          alias     \* <<a, b>> right after a successful copy / rename / bulk rename from a to b, <<>> otherwise
vars == <<refs, logs, path, fs, fsdirs, alias>>
\* The cover is taken over the abstract state PLUS "the last operation was a copy / rename a -> b": a copy
\* makes b's log equal to a's, which is also what two logged sets give; an implementation may get there by
\* SHARING what it should have copied (a hard link, a shared row), and that only shows in the NEXT write
\* to either name.  With alias in the view every operation is also explored right after every copy / rename.
View == <<refs, logs, alias>>

\* ("remotes/o/x/y" is at once the ref x/y of remote o and the ref y of a remote NAMED o/x)
Names == { "heads/a_b", "heads/aXb", "heads/A_b", "heads/a%b",
           "remotes/o/x", "remotes/oo/x", "remotes/o_/x", "remotes/o/x/y" }
NamesS == IF Small THEN { "heads/a_b", "heads/aXb", "heads/A_b", "remotes/o_/x", "remotes/oo/x", "remotes/o/x/y" }
          ELSE Names
Prefixes == { "", "heads/a_", "heads/a%", "heads/a", "heads/A", "heads/",
              "remotes/o/", "remotes/o", "remotes/o_/", "remotes/oo/", "remotes/" }
Remotes == { "o", "oo", "o_", "O", "o/x" }
Vals == {1, 2}

\* an operation is <<name, n, m, v, prefixes, notPrefixes>> (unused fields empty)
Ops ==
       {<<"set", n, "", v, {}, {}>>    : n \in NamesS, v \in Vals}
  \cup {<<"setlog", n, "", v, {}, {}>> : n \in NamesS, v \in Vals}
  \cup {<<"setlogf", n, "", v, {}, {}>> : n \in NamesS, v \in Vals}   \* logged set whose log write FAILS inside the store
  \cup {<<"del", n, "", 0, {}, {}>>    : n \in NamesS}
  \cup {<<"get", n, "", 0, {}, {}>>    : n \in NamesS}
  \cup {<<"log", n, "", 0, {}, {}>>    : n \in NamesS}
  \cup {<<"ren", n, m, 0, {}, {}>>     : n \in NamesS, m \in NamesS}
  \cup {<<"copy", n, m, 0, {}, {}>>    : n \in NamesS, m \in NamesS}
  \cup {<<"filter", "", "", 0, {p}, {}>>  : p \in Prefixes}
  \cup {<<"filter", "", "", 0, {p}, {q}>> : p \in {"", "heads/", "remotes/"}, q \in Prefixes \ {""}}
  \cup {<<"filter", "", "", 0, {"heads/a_", "remotes/o_/"}, {}>>}
  \cup {<<"filter", "", "", 0, {}, {"remotes/"}>>}
  \cup {<<"delremote", r, "", 0, {}, {}>>  : r \in Remotes}
  \cup {<<"listremote", r, "", 0, {}, {}>> : r \in Remotes}
  \cup {<<"renremote", r, s, 0, {}, {}>>   : r \in Remotes, s \in Remotes}

Apply(o) ==
  CASE o[1] = "set"        -> Set(refs, logs, o[2], o[4])
    [] o[1] = "setlog"     -> SetWithLog(refs, logs, o[2], o[4], MetaOf(o[4]))
    [] o[1] = "setlogf"    -> St(refs, logs, Err)      \* a logged set is one operation: failing half way leaves nothing behind
    [] o[1] = "del"        -> Delete(refs, logs, o[2])
    [] o[1] = "get"        -> Get(refs, logs, o[2])
    [] o[1] = "log"        -> LogRead(refs, logs, o[2])
    [] o[1] = "ren"        -> Rename(refs, logs, o[2], o[3])
    [] o[1] = "copy"       -> Copy(refs, logs, o[2], o[3])
    [] o[1] = "filter"     -> Filter(refs, logs, o[5], o[6])
    [] o[1] = "delremote"  -> DeleteAllRemote(refs, logs, o[2])
    [] o[1] = "listremote" -> ListRemote(refs, logs, o[2])
    [] o[1] = "renremote"  -> RenameAllRemote(refs, logs, o[2], o[3])

Enabled(o) ==
  /\ o[1] = "renremote" => RenameAllRemoteEnabled(refs, o[2], o[3])
  /\ o[1] = "setlog" => Len(LogOf(logs, o[2])) < LogCap

(* The file store (pkg/ref/fs) is judged "for the operations it implements" (statement of C15):   *)
(* single names, logs, rename onto a fresh name, copy of a logged ref onto a fresh name, listing  *)
(* by ONE directory prefix.  2 = judge result and state, 1 = judge the state only (copying a ref  *)
(* onto itself must leave it alone, whatever it answers), 0 = not judged (overwriting renames,    *)
(* exclusion prefixes, several prefixes, prefixes that are not directories).                      *)
EndsWithSlash(p) == p = "" \/ SubSeq(p, Len(p), Len(p)) = "/"
\* a file store cannot hold a name and a name below it (file and directory of the same path)
Below(a, b) == Len(a) < Len(b) /\ SubSeq(b, 1, Len(a) + 1) = a \o "/"
PathClash(n) == n \in fsdirs \/ \E m \in DOMAIN refs : Below(n, m) \/ Below(m, n)
DirsOf(r) == {m \in Names : \E n \in DOMAIN r : Below(m, n)}
FsStep(o) ==
  CASE o[1] \in {"set", "setlog", "get", "log"} -> IF PathClash(o[2]) THEN 0 ELSE 2
    \* deleting a name that is no ref but a path prefix of refs (or lies below one): the file store is free in what it
    \* answers, not in what it does - every other name and log stays (state judged, result not)
    [] o[1] = "del" -> IF PathClash(o[2]) THEN 1 ELSE 2
    [] o[1] \in {"ren", "copy"} /\ (PathClash(o[2]) \/ PathClash(o[3])) -> 0
    [] o[1] = "ren"    -> IF o[2] \notin DOMAIN refs THEN 2
                          ELSE IF o[3] \in DOMAIN refs \/ PathClash(o[3]) THEN 0 ELSE 2
    [] o[1] = "copy"   -> IF o[2] \notin DOMAIN refs THEN 2
                          ELSE IF o[2] = o[3] THEN 1
                          ELSE IF o[3] \in DOMAIN refs \/ o[2] \notin DOMAIN logs \/ PathClash(o[3]) THEN 0 ELSE 2
    [] o[1] = "setlogf" -> 0
    [] o[1] = "filter" -> IF Cardinality(o[5]) = 1 /\ o[6] = {} /\ \A q \in o[5] : EndsWithSlash(q) THEN 2 ELSE 0
    [] o[1] = "renremote" -> IF \E n \in DOMAIN refs : StartsWith(n, RemotePrefix(o[2])) /\ PathClash(Retarget(n, o[2], o[3])) THEN 0 ELSE 2
    [] OTHER           -> 2
Min2(a, b) == IF a < b THEN a ELSE b

(* abstract state as JSON-friendly sets of pairs *)
Export(r, l) == [refs |-> {<<n, r[n]>> : n \in DOMAIN r},
                 logs |-> {<<n, l[n]>> : n \in DOMAIN l}]

Init == refs = <<>> /\ logs = <<>> /\ path = <<>> /\ fs = 2 /\ fsdirs = {} /\ alias = <<>>

Next ==
  /\ Len(path) < D
  /\ \E o \in Ops :
       /\ Enabled(o)
       /\ LET s == Apply(o) IN
            /\ refs' = s.refs
            /\ logs' = s.logs
            /\ path' = Append(path, o)
            /\ fs' = Min2(fs, FsStep(o))
            /\ fsdirs' = fsdirs \cup DirsOf(s.refs)
            /\ alias' = IF o[1] \in {"copy", "ren", "renremote"} /\ s.ret.ok /\ s.refs # refs THEN <<o[2], o[3]>> ELSE <<>>
            /\ PrintT(<<"SCN", ToJson([path |-> path', ret |-> s.ret, post |-> Export(s.refs, s.logs), fs |-> fs'])>>)

Spec == Init /\ [][Next]_vars

Inv == /\ LogsOnlyForRefs(refs, logs)
       /\ \A n \in DOMAIN refs : refs[n] \in Vals
=============================================================================
