----------------------------- MODULE TraceGraph -----------------------------
(***************************************************************************)
(* Use (C) of Graph: a trace recorded from the REAL code                   *)
(*   reset | commit c ps t | isanc a b ok | walk from seq | seek tuple res *)
(* is accepted iff every answer is one the specification allows for the    *)
(* history logged so far.  The ancestor relation, the walk sets and the    *)
(* allowed merge bases are computed here, by the specification, from the   *)
(* logged commits - the harness only reports what the real code said.      *)
(*                                                                         *)
(* KnownDeviations  signatures graph/seek/<kind>/<heads> of recorded       *)
(*   findings: for these the named deviation action TSeekAsCoded may       *)
(*   consume a merge-base answer that misses the contract, provided it is  *)
(*   exactly the answer of the transcribed algorithm; it prints the        *)
(*   signature ("SCN" line) so that the driver can report KNOWN-FINDING,   *)
(*   and validation goes on with the following events.  {} = pure contract.*)
(* Classify  FALSE: validation.  TRUE: labelling pass over a trace that    *)
(*   validation rejected - every event is consumed and every miss printed  *)
(*   with the signature the specification gives it.                        *)
(***************************************************************************)
EXTENDS Graph, TraceBase

CONSTANTS KnownDeviations, Classify

VARIABLES g,     \* the logged history [p, t]
          anc,   \* its ancestor map, extended commit by commit
          l
vars == <<g, anc, l>>

Ev == TLog[l]
Known(c) == c \in Commits(g)
Report(sig) == PrintT(<<"SCN", ToJson([line |-> l, sig |-> sig])>>)

TReset == /\ Ev.op = "reset"
          /\ g' = [p |-> <<>>, t |-> <<>>]
          /\ anc' = <<>>

TCommit == /\ Ev.op = "commit"
           /\ Ev.c = Len(g.p) + 1
           /\ NoDup(Ev.ps) /\ \A p \in Range(Ev.ps) : Known(p)
           /\ g' = [p |-> Append(g.p, Ev.ps), t |-> Append(g.t, Ev.t)]
           /\ anc' = AncStep(anc, Ev.c, Range(Ev.ps))

IsAncArgs == Known(Ev.a) /\ Known(Ev.b)
IsAncGood == Ev.err = "" /\ Ev.ok = IsAnc(anc, Ev.a, Ev.b)
TIsAnc == /\ Ev.op = "isanc" /\ IsAncArgs
          /\ IF IsAncGood THEN TRUE
             ELSE Classify /\ Report(IF Ev.err # "" THEN "graph/isanc/error/clock=" \o ClockClass(g)
                                     ELSE IsAncSig(g, anc, Ev.a, Ev.b, Ev.ok))
          /\ UNCHANGED <<g, anc>>

WalkArgs == Ev.from # <<>> /\ \A c \in Range(Ev.from) : Known(c)
WalkGood == Ev.err = "" /\ WalkOK(anc, Range(Ev.from), Ev.seq)
TWalk == /\ Ev.op = "walk" /\ WalkArgs
         /\ IF WalkGood THEN TRUE
            ELSE Classify /\ Report(IF Ev.err # "" THEN "graph/walk/error/clock=" \o ClockClass(g)
                                    ELSE WalkSig(g, anc, Range(Ev.from), Ev.seq))
         /\ UNCHANGED <<g, anc>>

SeekArgs == Ev.tuple # <<>> /\ \A c \in Range(Ev.tuple) : Known(c)
SeekGood == (Ev.res = Nil) = (Ev.err # "") /\ SeekOK(anc, Ev.tuple, Ev.res)
TSeek == /\ Ev.op = "seek" /\ SeekArgs
         /\ IF SeekGood THEN TRUE
            ELSE Classify /\ Report(SeekSig(anc, Ev.tuple, Ev.res) \o
                                    \* a recorded finding is the answer of the transcribed algorithm, nothing else
                                    (IF Ev.res = SeekAsCoded(g, Ev.tuple) THEN "" ELSE "/unlike-transcription"))
         /\ UNCHANGED <<g, anc>>

(* the named deviation: what ref.SeekCommonAncestor is known to do         *)
TSeekAsCoded == /\ Ev.op = "seek" /\ SeekArgs
                /\ ~Classify /\ ~SeekGood
                /\ (Ev.res = Nil) = (Ev.err # "")
                /\ SeekSig(anc, Ev.tuple, Ev.res) \in KnownDeviations
                /\ Ev.res = SeekAsCoded(g, Ev.tuple)
                /\ Report(SeekSig(anc, Ev.tuple, Ev.res))
                /\ UNCHANGED <<g, anc>>

Init == g = [p |-> <<>>, t |-> <<>>] /\ anc = <<>> /\ l = 1
Next == /\ l <= Len(TLog)
        /\ l' = l + 1
        /\ (TReset \/ TCommit \/ TIsAnc \/ TWalk \/ TSeek \/ TSeekAsCoded)
Spec == Init /\ [][Next]_vars

Constr == Mark(l)
Inv == Len(anc) = Len(g.p) /\ Len(g.t) = Len(g.p)
=============================================================================
