------------------------------ MODULE TraceCrash ------------------------------
(***************************************************************************)
(* Use (C) for C13.  Two kinds of traces, both from the REAL code:         *)
(*                                                                         *)
(*  write traces   begin {meta, present, refs, strict}, then one line per  *)
(*                 store write of an operation run through the real        *)
(*                 command line, recorded by the verif hooks in            *)
(*                 pkg/objects/badger and pkg/ref/sql (w = object put or   *)
(*                 delete, ref = ref write).  Crash!RepoConsistent is      *)
(*                 evaluated in the state after EVERY write, i.e. at every *)
(*                 point where the process could have died.                *)
(*  crash states   state {meta, present, refs, strict}: a scan of the real *)
(*                 stores after the real wrgl binary was killed at its     *)
(*                 n-th write (and the directory reopened), followed by    *)
(*                 rerun {ok, same}: the same command run again must       *)
(*                 succeed and end where the uninterrupted run ends.       *)
(***************************************************************************)
EXTENDS Crash, TraceBase

VARIABLES l, meta, p, refs, strict
vars == <<l, meta, p, refs, strict>>
Ev == TLog[l]

Range(s) == {s[i] : i \in 1..Len(s)}
SetOf(s) == Range(s)

\* meta arrives as lists: tables [[t, [blocks], [blkidx]]...], commits [[c, t, [parents]]...]
MetaOf(e) ==
  [tables  |-> [t \in {x[1] : x \in Range(e.tables)} |->
                  LET x == CHOOSE y \in Range(e.tables) : y[1] = t IN [blocks |-> SetOf(x[2]), blkidx |-> SetOf(x[3])]],
   commits |-> [c \in {x[1] : x \in Range(e.commits)} |->
                  LET x == CHOOSE y \in Range(e.commits) : y[1] = c IN [table |-> x[2], parents |-> SetOf(x[3])]]]
PresentOf(e) == [blocks |-> SetOf(e.present.blocks), blkidx |-> SetOf(e.present.blkidx), tables |-> SetOf(e.present.tables),
                 tblidx |-> SetOf(e.present.tblidx), profiles |-> SetOf(e.present.profiles), commits |-> SetOf(e.present.commits)]
RefsOf(e) == [n \in {x[1] : x \in Range(e.refs)} |-> (CHOOSE y \in Range(e.refs) : y[1] = n)[2]]

Bad(what) == PrintT(<<"BROKEN", l, what>>) /\ FALSE

\* every object named by a present object or a ref must be known to meta
Check(m, pp, rr, st) ==
  LET b == Broken(m, pp, rr, st) IN b = "ok" \/ (b # "ok" /\ Bad(b))

TBegin == /\ Ev.op \in {"begin", "state"}
          /\ meta' = MetaOf(Ev) /\ p' = PresentOf(Ev) /\ refs' = RefsOf(Ev) /\ strict' = SetOf(Ev.strict)
          /\ Check(MetaOf(Ev), PresentOf(Ev), RefsOf(Ev), SetOf(Ev.strict))

TWrite == /\ Ev.op = "w"
          /\ p' = Apply(p, Ev.kind, Ev.id, Ev.del)
          /\ UNCHANGED <<meta, refs, strict>>
          /\ Check(meta, Apply(p, Ev.kind, Ev.id, Ev.del), refs, strict)

NewRefs(e) == IF e.del THEN [n \in DOMAIN refs \ {e.name} |-> refs[n]] ELSE Put(refs, e.name, e.val)
TRef == /\ Ev.op = "ref"
        /\ refs' = NewRefs(Ev)
        /\ UNCHANGED <<meta, p, strict>>
        /\ Check(meta, p, NewRefs(Ev), strict)

TRerun == /\ Ev.op = "rerun"
          /\ \/ Ev.ok /\ Ev.same
             \/ ~Ev.ok /\ Bad("rerun-failed")
             \/ Ev.ok /\ ~Ev.same /\ Bad("rerun-different-result")
          /\ UNCHANGED <<meta, p, refs, strict>>

\* a store write that fails must make the operation report an error
TFault == /\ Ev.op = "fault"
          /\ \/ Ev.reported
             \/ ~Ev.reported /\ Bad("failure-not-reported")
          /\ UNCHANGED <<meta, p, refs, strict>>

TEnd == Ev.op = "end" /\ UNCHANGED <<meta, p, refs, strict>>

Empty == [blocks |-> {}, blkidx |-> {}, tables |-> {}, tblidx |-> {}, profiles |-> {}, commits |-> {}]
Init == l = 1 /\ meta = [tables |-> <<>>, commits |-> <<>>] /\ p = Empty /\ refs = <<>> /\ strict = {}
Next == /\ l <= Len(TLog)
        /\ l' = l + 1
        /\ (TBegin \/ TWrite \/ TRef \/ TRerun \/ TFault \/ TEnd)
Spec == Init /\ [][Next]_vars
Constr == Mark(l)
=============================================================================
