------------------------------ MODULE HashSet ------------------------------
(***************************************************************************)
(* The on-disk hash set of wrgl (pkg/index.HashSet) as property C20 sees   *)
(* it: a file holding a fan-out table (256 cumulative counts, one per      *)
(* first byte) followed by the 16-byte entries in sorted order, with       *)
(* batched insertion.                                                      *)
(*                                                                         *)
(* A hash is a positive integer id; ids are ordered like the byte strings  *)
(* they stand for (the harness keeps the bijection: id = rank in byte      *)
(* order).  fb is the sequence giving the first byte (0..255) of every id; *)
(* it is non-decreasing in the id.                                         *)
(*                                                                         *)
(* The design state  s  is a record                                        *)
(*   stored  the entries in the file, in file order                        *)
(*   ffan    the fan-out table in the file (what lookups read)             *)
(*   fanout  the fan-out table held in memory (what Flush updates)         *)
(*   size    the entry count held in memory                                *)
(*   batch   additions not yet written                                     *)
(* and every operation is an operator  Op(s, ...) -> s'  structured like   *)
(* the code: lookups bisect inside the fan-out bucket, Flush groups the    *)
(* batch by insert offset, shifts the existing entries from the back and   *)
(* bumps the cumulative counts.                                            *)
(*                                                                         *)
(* What the STATEMENT allows is kept apart in the ghost record  g          *)
(* (added, sure, lost) - see Allowed and FileOK below.  The statement      *)
(* speaks about the set "once flushed"; it does not say when a full batch  *)
(* is written nor what happens to unflushed additions at close, so:        *)
(*   sure   hashes covered by an explicit Flush: must be members           *)
(*   added  hashes ever passed to Add: only these may be members           *)
(*   lost   hashes that were pending at a close without Flush              *)
(***************************************************************************)
EXTENDS Integers, Sequences, FiniteSets, TLC

(* first bytes are 0..MaxByte: 255 for real files (trace validation); the  *)
(* exhaustive model uses 2, its three values standing for the first bytes  *)
(* in use 00, 7F, FF (the fan-out entries between two bytes in use repeat  *)
(* the lower one, so nothing of the design is lost)                        *)
CONSTANT MaxByte

Bytes == 0..MaxByte
ZeroFan == [k \in Bytes |-> 0]

Range(q) == {q[i] : i \in DOMAIN q}

Empty == [stored |-> <<>>, ffan |-> ZeroFan, fanout |-> ZeroFan, size |-> 0, batch |-> <<>>]

-----------------------------------------------------------------------------
(* lookups: index.go insertIndex / indexOf                                 *)

(* sort.Search(hi, pred) restricted to lo..hi: least pos with              *)
(* stored[base+pos] >= h (0-based positions; hi if none), by bisection     *)
RECURSIVE Bisect(_, _, _, _, _)
Bisect(stored, h, base, lo, hi) ==
  IF lo >= hi THEN lo
  ELSE LET mid == (lo + hi) \div 2 IN
       IF stored[base + mid + 1] >= h THEN Bisect(stored, h, base, lo, mid)
       ELSE Bisect(stored, h, base, mid + 1, hi)

(* 0-based offset at which h is or would be stored: the bucket of its      *)
(* first byte is ffan[b-1] .. ffan[b]                                      *)
InsertIndex(s, fb, h) ==
  LET b     == fb[h]
      start == IF b > 0 THEN s.ffan[b - 1] ELSE 0
      end   == s.ffan[b]
  IN IF start = end THEN start
     ELSE start + Bisect(s.stored, h, start, 0, end - start)

IndexOf(s, fb, h) ==
  LET pos == InsertIndex(s, fb, h) IN
  IF pos < Len(s.stored) /\ s.stored[pos + 1] = h THEN pos ELSE -1

Has(s, fb, h) == IndexOf(s, fb, h) # -1

-----------------------------------------------------------------------------
(* Flush: hash_set.go addToHashTable + fanout.go addToFanoutTable          *)

Offsets(s, fb) == {InsertIndex(s, fb, s.batch[i]) : i \in DOMAIN s.batch}

(* the hashes of the batch (with multiplicity) that go to offset off,      *)
(* ascending                                                               *)
GroupAt(s, fb, off) ==
  SortSeq(SelectSeq(s.batch, LAMBDA x : InsertIndex(s, fb, x) = off), LAMBDA a, b : a < b)

RECURSIVE Descending(_)
Descending(S) ==
  IF S = {} THEN <<>>
  ELSE LET m == CHOOSE x \in S : \A y \in S : y <= x IN <<m>> \o Descending(S \ {m})

(* arr: the entry area (1-based sequence, position p of the file is        *)
(* arr[p+1]); offs: remaining insert offsets, highest first; end: entries  *)
(* below end have not been moved yet; dst: one past the last free slot     *)
RECURSIVE ApplyGroups(_, _, _, _, _, _)
ApplyGroups(arr, s, fb, offs, end, dst) ==
  IF offs = <<>> THEN arr
  ELSE LET off    == Head(offs)
           hs     == GroupAt(s, fb, off)
           l      == Len(hs)
           shift  == dst - end
           \* copy entries off..end-1 up by shift, starting from the back
           moved  == [p \in DOMAIN arr |->
                        IF p - 1 - shift >= off /\ p - 1 - shift < end THEN arr[p - shift] ELSE arr[p]]
           ndst   == dst - end + off - l
           filled == [p \in DOMAIN moved |->
                        IF p - 1 >= ndst /\ p - 1 < ndst + l THEN hs[p - ndst] ELSE moved[p]]
       IN ApplyGroups(filled, s, fb, Tail(offs), off, ndst)

BumpFanout(fan, fb, batch) ==
  [k \in Bytes |-> fan[k] + Cardinality({i \in DOMAIN batch : fb[batch[i]] <= k})]

Flush(s, fb) ==
  LET n   == Len(s.batch)
      arr == s.stored \o [i \in 1..n |-> 0]
      ent == ApplyGroups(arr, s, fb, Descending(Offsets(s, fb)), s.size, s.size + n)
      fan == BumpFanout(s.fanout, fb, s.batch)
  IN [stored |-> ent, ffan |-> fan, fanout |-> fan, size |-> s.size + n, batch |-> <<>>]

(* Add: nothing if the file already has h; a hash repeated inside the      *)
(* unflushed batch is appended again (dupAppend, as coded) or skipped -    *)
(* the statement does not say; a full batch is flushed                     *)
Add(s, fb, bs, h, dupAppend) ==
  IF IndexOf(s, fb, h) # -1 THEN s
  ELSE IF ~dupAppend /\ h \in Range(s.batch) THEN s
  ELSE LET s1 == [s EXCEPT !.batch = Append(@, h)] IN
       IF Len(s1.batch) >= bs THEN Flush(s1, fb) ELSE s1

(* close + NewHashSet on the same file: memory is rebuilt from the file,   *)
(* pending additions are gone                                              *)
Reopen(s) == [s EXCEPT !.fanout = s.ffan, !.size = s.ffan[MaxByte], !.batch = <<>>]

-----------------------------------------------------------------------------
(* what the statement allows                                               *)

G0 == [added |-> {}, sure |-> {}, lost |-> {}]
GAdd(g, h)  == [g EXCEPT !.added = @ \cup {h}, !.lost = @ \ {h}]
GFlush(g)   == [g EXCEPT !.sure = g.added \ g.lost]
GReopen(g)  == [g EXCEPT !.lost = g.added \ g.sure]

(* the answers Has(h) may give *)
Allowed(g, h) == IF h \in g.sure THEN {TRUE}
                 ELSE IF h \notin g.added THEN {FALSE}
                 ELSE BOOLEAN

(* predicates on a file projection: ent = entries (ids, file order),       *)
(* efb = their first bytes, fan = the 256 counts as a function on Bytes    *)
Sorted(ent) == \A i \in 1..(Len(ent) - 1) : ent[i] <= ent[i + 1]

FanoutConsistentDef(efb, fan) ==
  \A k \in Bytes : fan[k] = Cardinality({i \in DOMAIN efb : efb[i] <= k})

(* the same predicate in n + 256 steps when the first bytes are in order   *)
(* (equivalence checked by TLC on every state of HashSetGen)               *)
FanoutConsistentFast(efb, fan) ==
  LET n == Len(efb) IN
  /\ \A k \in Bytes : /\ fan[k] >= 0 /\ fan[k] <= n
                      /\ fan[k] > 0 => efb[fan[k]] <= k
                      /\ fan[k] < n => efb[fan[k] + 1] > k

FanoutConsistentOn(efb, fan) ==
  IF \A i \in 1..(Len(efb) - 1) : efb[i] <= efb[i + 1]
  THEN FanoutConsistentFast(efb, fan)
  ELSE FanoutConsistentDef(efb, fan)

(* members of the file: everything surely flushed, nothing never added *)
FileOK(ent, g) == g.sure \subseteq Range(ent) /\ Range(ent) \subseteq g.added

-----------------------------------------------------------------------------
(* invariants of the design (use A); U = the hash universe                 *)

FirstBytes(s, fb) == [i \in DOMAIN s.stored |-> fb[s.stored[i]]]

DesignSorted(s)             == Sorted(s.stored)
DesignFanoutConsistent(s, fb) == /\ FanoutConsistentDef(FirstBytes(s, fb), s.ffan)
                                 /\ FanoutConsistentOn(FirstBytes(s, fb), s.ffan)
DesignMemory(s)             == s.fanout = s.ffan /\ s.size = Len(s.stored)
(* bucket search is exact *)
DesignHasExact(s, fb, U)    == \A h \in U : Has(s, fb, h) <=> h \in Range(s.stored)
(* the design's answers and file are among those the statement allows *)
DesignAllowed(s, g, fb, U)  == /\ \A h \in U : Has(s, fb, h) \in Allowed(g, h)
                               /\ FileOK(s.stored, g)
(* once flushed (nothing pending, nothing dropped at a close) membership   *)
(* is exactly the added set                                                *)
DesignFlushedExact(s, g)    == (s.batch = <<>> /\ g.lost = {}) => Range(s.stored) = g.added
(* closing and reopening changes no answer *)
DesignReopenSame(s, fb, U)  == \A h \in U : Has(Reopen(s), fb, h) = Has(s, fb, h)
=============================================================================
