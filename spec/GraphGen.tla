------------------------------ MODULE GraphGen ------------------------------
(***************************************************************************)
(* Use (A)+(B) of Graph: enumerate EVERY history with NC commits           *)
(*   commit i's parents: at most 2 of 1..i-1 (as a set, or in both orders  *)
(*   when Ordered), plus - when Octopus - the shapes whose last commit has *)
(*   the three parents NC-3, NC-2, NC-1,                                   *)
(* times every assignment of {1,2,3} (equal, reversed, skewed clocks; or   *)
(* just three clocks when AllClocks is FALSE),                             *)
(* and print one scenario line ("SCN") per history carrying what the       *)
(* specification says about it:                                            *)
(*   p, t   parents and times (clk: the clock class, a label only),        *)
(*   anc    per commit its ancestor set = the ancestor relation (a is an   *)
(*          ancestor of b iff a \in anc[b]) = what a walk from it must     *)
(*          visit, each once,                                              *)
(*   b      per set S of 1..K commits <<S, AllowedBases(S), CommonAnc(S)>> *)
(*          - the answer demanded of a merge-base query whose inputs, in   *)
(*          any order and with any repetition, have range S ({} = must     *)
(*          report "not found"; CommonAnc only names the mismatch kind),   *)
(*   dev    the ordered tuples of distinct commits on which the            *)
(*          transcription SeekAsCoded leaves the contract, with its answer *)
(*          (model-level counterexamples = named scenarios to replay);     *)
(*          wc tells whether it was computed at all.                       *)
(* A shape is an initial state; its time assignments are its successors,   *)
(* so TLC's workers share the work and each scenario is printed once.      *)
(* The invariant is use (A): the queue design meets the contract.          *)
(***************************************************************************)
EXTENDS Graph, TLC, Json

CONSTANTS NC,        \* number of commits
          K,         \* largest set of merge inputs exported
          Ordered,   \* TRUE: two parents in both orders
          Octopus,   \* TRUE: add the 3-parent shapes
          WithCoded, \* TRUE: export dev
          AllClocks  \* TRUE: every assignment of times {1,2,3}; FALSE: three clocks
                     \* only - all equal, increasing and decreasing with creation

VARIABLE g
vars == <<g>>

Clocks == IF AllClocks THEN [1..NC -> 1..3]
          ELSE {[i \in 1..NC |-> 1], [i \in 1..NC |-> i], [i \in 1..NC |-> NC + 1 - i]}

ParChoices(i) ==
       {<<>>}
  \cup {<<a>> : a \in 1..(i - 1)}
  \cup {<<x[1], x[2]>> : x \in {y \in (1..(i - 1)) \X (1..(i - 1)) :
                                    IF Ordered THEN y[1] # y[2] ELSE y[1] < y[2]}}

RECURSIVE ShapesUpTo(_)
ShapesUpTo(k) ==
  IF k = 0 THEN {<<>>} ELSE {Append(s, c) : s \in ShapesUpTo(k - 1), c \in ParChoices(k)}

Shapes ==
  ShapesUpTo(NC) \cup
  (IF Octopus /\ NC >= 4
   THEN {Append(s, <<NC - 3, NC - 2, NC - 1>>) : s \in ShapesUpTo(NC - 1)} ELSE {})

Sets == {S \in SUBSET (1..NC) : Cardinality(S) \in 1..K}

RECURSIVE TuplesOf(_)       \* the orderings of a set
TuplesOf(S) == IF S = {} THEN {<<>>} ELSE UNION {{<<x>> \o r : r \in TuplesOf(S \ {x})} : x \in S}
DistinctTuples == UNION {TuplesOf(S) : S \in {S \in Sets : Cardinality(S) >= 2}}

Export(h) ==
  LET A     == AncMap(h)
      coded == [tp \in DistinctTuples |-> SeekAsCoded(h, tp)]
  IN [p   |-> h.p, t |-> h.t, clk |-> ClockClass(h), anc |-> A,
      b   |-> {<<S, AllowedBases(A, S), CommonAnc(A, S)>> : S \in Sets},
      wc  |-> WithCoded,
      dev |-> IF WithCoded
              THEN {<<tp, coded[tp]>> : tp \in {x \in DistinctTuples : ~SeekOK(A, x, coded[x])}}
              ELSE {}]

Init == g \in {[p |-> s, t |-> <<>>] : s \in Shapes}

Next == /\ g.t = <<>>
        /\ \E t \in Clocks :
             /\ g' = [g EXCEPT !.t = t]
             /\ PrintT(<<"SCN", ToJson(Export(g'))>>)

Spec == Init /\ [][Next]_vars

Inv == g.t # <<>> => ModelOK(g)
=============================================================================
