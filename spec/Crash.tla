-------------------------------- MODULE Crash --------------------------------
(***************************************************************************)
(* Crash consistency of the repository (property C13).                     *)
(*                                                                         *)
(* The repository is seen as sets of PRESENT objects plus a ref map; an    *)
(* operation is a sequence of atomic store writes (puts and deletes).  The *)
(* process may die between any two writes, so the property is an invariant *)
(* of EVERY state of the write sequence:                                   *)
(*                                                                         *)
(*   RepoConsistent ==                                                     *)
(*     every ref names a present commit                                    *)
(*     every present commit has all its parents                            *)
(*     every present table is usable: all its blocks, all its block        *)
(*       indices and its table index are present                           *)
(*     a branch written by commit / merge points at a commit whose table   *)
(*       is present                                                        *)
(*                                                                         *)
(* The static structure (which table lists which blocks, ...) is the       *)
(* record `meta`; in the design model below it is a small fixed universe,  *)
(* in TraceCrash.tla it is what the harness read from the REAL stores.     *)
(***************************************************************************)
EXTENDS Naturals, Sequences, FiniteSets

\* meta.tables[t]  = [blocks |-> set, blkidx |-> set]     (ids are naturals)
\* meta.commits[c] = [table |-> t, parents |-> set]
TableUsable(meta, p, t) ==
  /\ meta.tables[t].blocks \subseteq p.blocks
  /\ meta.tables[t].blkidx \subseteq p.blkidx
  /\ t \in p.tblidx

RepoConsistent(meta, p, refs, strictHeads) ==
  /\ \A r \in DOMAIN refs : refs[r] \in p.commits
  /\ \A c \in p.commits : meta.commits[c].parents \subseteq p.commits
  /\ \A t \in p.tables : TableUsable(meta, p, t)
  /\ \A r \in strictHeads \cap DOMAIN refs : meta.commits[refs[r]].table \in p.tables

\* the clause that fails first (for signatures)
Broken(meta, p, refs, strictHeads) ==
  IF \E r \in DOMAIN refs : refs[r] \notin p.commits THEN "ref-to-missing-commit"
  ELSE IF \E c \in p.commits : ~(meta.commits[c].parents \subseteq p.commits) THEN "commit-without-parent"
  ELSE IF \E t \in p.tables : ~(meta.tables[t].blocks \subseteq p.blocks) THEN "table-without-block"
  ELSE IF \E t \in p.tables : ~(meta.tables[t].blkidx \subseteq p.blkidx) THEN "table-without-block-index"
  ELSE IF \E t \in p.tables : t \notin p.tblidx THEN "table-without-table-index"
  ELSE IF \E r \in strictHeads \cap DOMAIN refs : meta.commits[refs[r]].table \notin p.tables THEN "head-without-table"
  ELSE "ok"

Put(f, k, v) == [x \in DOMAIN f \cup {k} |-> IF x = k THEN v ELSE f[x]]

\* effect of one write on the presence sets
Apply(p, kind, id, isDelete) ==
  LET upd(S) == IF isDelete THEN S \ {id} ELSE S \cup {id} IN
  CASE kind = "block"   -> [p EXCEPT !.blocks = upd(@)]
    [] kind = "blkidx"  -> [p EXCEPT !.blkidx = upd(@)]
    [] kind = "table"   -> [p EXCEPT !.tables = upd(@)]
    [] kind = "tblidx"  -> [p EXCEPT !.tblidx = upd(@)]
    [] kind = "profile" -> [p EXCEPT !.profiles = upd(@)]
    [] kind = "commit"  -> [p EXCEPT !.commits = upd(@)]
=============================================================================
