----------------------------- MODULE TraceDiff -----------------------------
(***************************************************************************)
(* Use (C) of Diff: real-scale table pairs built through the real ingest   *)
(* (random keys, block boundaries anywhere, composite keys, no-PK tables)  *)
(* were compared by the REAL diff.DiffTables; every line records the two   *)
(* stored tables projected on the key ranks of the pair                    *)
(*      t1, t2 : content id per rank 1..M (0 = absent)                     *)
(* and the events as emitted, projected to                                 *)
(*      <<kind, key rank, rank of the key of the row at Offset in t1,      *)
(*        rank of the key of the row at OldOffset in t2>>   (0 = none).    *)
(* A line is accepted iff the events are a correct diff by the             *)
(* set-theoretic definition of Diff.tla (CorrectDiff: exactly the expected *)
(* kinds and keys, no key twice, offsets addressing the right rows) and    *)
(* the real diff reported no error.  The block windows of the model are    *)
(* deliberately NOT used here: real blocks are not aligned with anything.  *)
(* Each pair is its own trace (a reset line precedes it).                  *)
(***************************************************************************)
EXTENDS Diff, TraceBase

VARIABLES l
vars == <<l>>

Ev == TLog[l]

TReset == Ev.op = "reset"

TDiff == /\ Ev.op = "diff"
         /\ Ev.err = ""
         /\ Len(Ev.t1) = Len(Ev.t2)
         /\ CorrectDiff(Ev.t1, Ev.t2, Ev.ev)

Init == l = 1
Next == /\ l <= Len(TLog)
        /\ l' = l + 1
        /\ (TReset \/ TDiff)
Spec == Init /\ [][Next]_vars

Constr == Mark(l)
=============================================================================
