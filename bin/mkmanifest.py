#!/usr/bin/env python3
"""Regenerates MANIFEST.json from the table below (single place to edit)."""
import json, os, subprocess
V = os.path.dirname(os.path.dirname(os.path.abspath(__file__)))

BASELINE_OFF = ("cd /repo && go test -mod=mod -vet=off -count=1 -timeout 25m ./...")

# id -> (engine, category, level text, level note, technique, design ref)
CHECKS = {
 "C01": ("ingest", "model_checking",
         "TLC checks on Ingest.tla/IngestGen.tla that the design of the external sort (spill, k-way merge, dedupe against NO previous key, "
         "block cut) meets the losslessness contract for every input of <=4 (quick) / <=5 (thorough) rows over 8 abstract rows x 5 key shapes "
         "x 3 run sizes; every such scenario, padded so that its rows straddle a real 255-row block boundary, is ingested by the real "
         "sorter+inserter and the stored rows are compared with the expectation TLC exported; seeded real-scale tables (awkward cells, "
         "duplicate keys at block boundaries, 65535-byte cells, rows > 64 KiB, oversize cells, delimiters, run sizes) are ingested and "
         "the projected events validated by TLC against TraceIngest.tla.",
         "encoding/csv trusted; cell contents sampled from an awkward-content table + seeded random bytes; CLI path covered by the System engine",
         "TLA+ spec Ingest.tla; TLC-enumerated scenarios replayed into pkg/sorter+pkg/ingest; TLC trace validation (TraceIngest.tla) of real-scale ingests",
         "DESIGN.md 5/C01"),
 "C03": ("ingest", "model_checking",
         "Objects!TableWellFormed (row count, block sizes, strictly ascending keys, exact block indices, table index = first key per block, "
         "doctor clean) is evaluated by TLC with B=255 on the projection of every real table stored by the producers: ~7,000 padded "
         "small-universe ingests and seeded real-scale ingests at boundary sizes 0,1,254..257,509..512,764..766 under run sizes, "
         "delimiters and 1..16 workers (TraceTable.tla); further producers (merge, receive, doctor) add observations as their engines run.",
         "hash function and string-list encoding of the repository are trusted for recomputing key/row hashes",
         "TLA+ spec Objects.tla; TLC trace validation (TraceTable.tla) of projections of real stored tables",
         "DESIGN.md 5/C03"),
 "C15": ("refs", "model_checking",
         "TLC explores the ref-store specification (Refs.tla) exhaustively over an alphabet of names with '_', '%', case variants "
         "and nested prefixes; every transition of the model's state graph is replayed on the real SQL ref store with return value "
         "and projected store compared (transition cover), and seeded real-scale operation traces recorded from the real store are "
         "validated against the specification by TLC (TraceRefs.tla).",
         "sqlite driver trusted; names from fixed alphabets; bounded depth (3 quick / 4 thorough) for the cover, length 80/150 for traces",
         "TLA+ spec Refs.tla; TLC transition cover replayed into pkg/ref/sql; TLC trace validation of recorded real executions",
         "DESIGN.md 5/C15"),
}

NOT_YET = {
}

def main():
    props = [json.loads(l) for l in open(os.path.join(V, "properties.jsonl"))]
    checks, na = [], []
    for p in props:
        pid = p["id"]
        if pid in CHECKS:
            eng, cat, text, note, tech, ref = CHECKS[pid]
            checks.append({
                "property_id": pid,
                "quick_cmd": "python3 bin/check %s --tier quick" % pid,
                "thorough_cmd": "python3 bin/check %s --tier thorough" % pid,
                "evidence_file": "evidence/%s.json" % pid,
                "replay_cmd_template": "python3 bin/check %s --replay {path}" % pid,
                "engine": eng,
                "level_claimed": {"category": cat, "text": text, "design_ref": ref},
                "level_note": note,
                "technique": tech,
            })
        else:
            na.append({"property_id": pid, "reason": NOT_YET.get(pid, "check under construction in this session: the specification module and its binding are not registered yet (see DESIGN.md section 12 for the order of work)")})
    hooks_commits = []
    try:
        out = subprocess.run(["git", "-C", "/repo", "log", "--format=%H %s"], capture_output=True, text=True).stdout
        hooks_commits = [l.split()[0] for l in out.splitlines() if " verif hook" in l or l.split(" ", 1)[1].startswith("verif:")]
    except Exception:
        pass
    engines = {}
    for pid, c in CHECKS.items():
        engines.setdefault(c[0], []).append(pid)
    m = {
        "version": 1,
        "setup_cmd": "bin/setup",
        "hooks": {"guard": "verif", "enable": "go build -tags verif (the harness module builds /repo through a replace directive)",
                  "baseline_off_cmd": BASELINE_OFF, "source_commits": hooks_commits, "add_only": True},
        "engines": [{"name": e, "path": "spec/ + harness/internal/%s" % e, "serves_properties": sorted(ps),
                     "kind_free_text": "TLA+ module(s) checked by TLC + Go replay/record binding"} for e, ps in sorted(engines.items())],
        "checks": checks,
        "not_applicable": na,
        "notes": "Every check: python3 bin/check <id> --tier quick|thorough; exit 0 held, 1 VIOLATION line, 2 inconclusive. See DESIGN.md.",
    }
    with open(os.path.join(V, "MANIFEST.json"), "w") as f:
        json.dump(m, f, indent=1)
    print("MANIFEST.json: %d checks, %d not_applicable" % (len(checks), len(na)))

main()
