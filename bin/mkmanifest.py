#!/usr/bin/env python3
"""Regenerates MANIFEST.json from the table below (single place to edit)."""
import json, os, subprocess
V = os.path.dirname(os.path.dirname(os.path.abspath(__file__)))

BASELINE_OFF = ("cd /repo && go test -mod=mod -vet=off -count=1 -timeout 25m ./...")

# id -> (engine, category, level text, level note, technique, design ref)
CHECKS = {
 "C15": ("refs", "model_checking",
         "TLC explores the ref-store specification (Refs.tla) exhaustively over an alphabet of names with '_', '%', case variants "
         "and nested prefixes; every transition of the model's state graph is replayed on the real SQL ref store with return value "
         "and projected store compared (transition cover), and seeded real-scale operation traces recorded from the real store are "
         "validated against the specification by TLC (TraceRefs.tla).",
         "sqlite driver trusted; names from fixed alphabets; bounded depth (3 quick / 4 thorough) for the cover, length 80/150 for traces",
         "TLA+ spec Refs.tla; TLC transition cover replayed into pkg/ref/sql; TLC trace validation of recorded real executions",
         "DESIGN.md 5/C15"),
}

NOT_YET = {
}

def main():
    props = [json.loads(l) for l in open(os.path.join(V, "properties.jsonl"))]
    checks, na = [], []
    for p in props:
        pid = p["id"]
        if pid in CHECKS:
            eng, cat, text, note, tech, ref = CHECKS[pid]
            checks.append({
                "property_id": pid,
                "quick_cmd": "python3 bin/check %s --tier quick" % pid,
                "thorough_cmd": "python3 bin/check %s --tier thorough" % pid,
                "evidence_file": "evidence/%s.json" % pid,
                "replay_cmd_template": "python3 bin/check %s --replay {path}" % pid,
                "engine": eng,
                "level_claimed": {"category": cat, "text": text, "design_ref": ref},
                "level_note": note,
                "technique": tech,
            })
        else:
            na.append({"property_id": pid, "reason": NOT_YET.get(pid, "check under construction in this session: the specification module and its binding are not registered yet (see DESIGN.md section 12 for the order of work)")})
    hooks_commits = []
    try:
        out = subprocess.run(["git", "-C", "/repo", "log", "--format=%H %s"], capture_output=True, text=True).stdout
        hooks_commits = [l.split()[0] for l in out.splitlines() if " verif hook" in l or l.split(" ", 1)[1].startswith("verif:")]
    except Exception:
        pass
    engines = {}
    for pid, c in CHECKS.items():
        engines.setdefault(c[0], []).append(pid)
    m = {
        "version": 1,
        "setup_cmd": "bin/setup",
        "hooks": {"guard": "verif", "enable": "go build -tags verif (the harness module builds /repo through a replace directive)",
                  "baseline_off_cmd": BASELINE_OFF, "source_commits": hooks_commits, "add_only": True},
        "engines": [{"name": e, "path": "spec/ + harness/internal/%s" % e, "serves_properties": sorted(ps),
                     "kind_free_text": "TLA+ module(s) checked by TLC + Go replay/record binding"} for e, ps in sorted(engines.items())],
        "checks": checks,
        "not_applicable": na,
        "notes": "Every check: python3 bin/check <id> --tier quick|thorough; exit 0 held, 1 VIOLATION line, 2 inconclusive. See DESIGN.md.",
    }
    with open(os.path.join(V, "MANIFEST.json"), "w") as f:
        json.dump(m, f, indent=1)
    print("MANIFEST.json: %d checks, %d not_applicable" % (len(checks), len(na)))

main()
