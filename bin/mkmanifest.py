#!/usr/bin/env python3
"""Regenerates MANIFEST.json from the table below (single place to edit)."""
import json, os, subprocess
V = os.path.dirname(os.path.dirname(os.path.abspath(__file__)))

BASELINE_OFF = ("cd /repo && go test -mod=mod -vet=off -count=1 -timeout 25m ./...")

# id -> (engine, category, level text, level note, technique, design ref)
CHECKS = {
 "C01": ("ingest", "model_checking",
         "TLC checks on Ingest.tla/IngestGen.tla that the design of the external sort (spill, k-way merge, dedupe against NO previous key, "
         "block cut) meets the losslessness contract for every input of <=4 (quick) / <=5 (thorough) rows over 8 abstract rows x 5 key shapes "
         "x 3 run sizes; every such scenario, padded so that its rows straddle a real 255-row block boundary, is ingested by the real "
         "sorter+inserter and the stored rows are compared with the expectation TLC exported; seeded real-scale tables (awkward cells, "
         "duplicate keys at block boundaries, 65535-byte cells, rows > 64 KiB, oversize cells, delimiters, run sizes, one table of more than 1024 / 2048 blocks, "
         "one of 40,000-byte cells) are ingested and "
         "the projected events validated by TLC against TraceIngest.tla.",
         "encoding/csv trusted; cell contents sampled from an awkward-content table + seeded random bytes; CLI path covered by the System engine",
         "TLA+ spec Ingest.tla; TLC-enumerated scenarios replayed into pkg/sorter+pkg/ingest; TLC trace validation (TraceIngest.tla) of real-scale ingests",
         "DESIGN.md 5/C01"),
 "C02": ("ingest", "model_checking",
         "TLC checks RunIndependent on IngestGen (for unique keys every run size yields the same table); seeded real-scale tables are "
         "ingested under permuted row orders x run sizes forcing 0..k spills x 1..16 workers x delimiters, into the map store and a real "
         "badger store, and committed / re-committed through the real command line; TraceIngest.tla keeps sumOf: content -> identifier and "
         "cidOf: identifier -> content and TLC rejects any event making identity non-functional or non-injective (neighbour tables differ in "
         "one cell / column name / column order / key) or a re-commit of unchanged content that creates a commit.",
         "hash collisions outside the model; content identity computed by the harness from the parsed rows; demanded for unique keys only (as stated)",
         "TLA+ specs Ingest.tla (RunIndependent, TLC) + TraceIngest.tla: TLC trace validation of real ingests and CLI commits",
         "DESIGN.md 5/C02"),
 "C03": ("ingest", "model_checking",
         "Objects!TableWellFormed (row count, block sizes, strictly ascending keys, exact block indices, table index = first key per block, "
         "doctor clean, and ReadersOK: the repository's own table reader / row-list reader return the stored rows in order and at block-boundary "
         "offsets) is evaluated by TLC with B=255 on the projection of every real table stored by the producers: ~7,000 padded "
         "small-universe ingests and seeded real-scale ingests at boundary sizes 0,1,254..257,509..512,764..766 under run sizes, "
         "delimiters and 1..16 workers (TraceTable.tla); further producers (merge, receive, doctor) add observations as their engines run.",
         "hash function and string-list encoding of the repository are trusted for recomputing key/row hashes",
         "TLA+ spec Objects.tla; TLC trace validation (TraceTable.tla) of projections of real stored tables",
         "DESIGN.md 5/C03"),
 "C04": ("diff", "model_checking",
         "Diff.tla transcribes the block-window search (findOverlappingBlocks with the prevEnd carry-over, both passes) and TLC checks "
         "Events = Expected (set-theoretic added/removed/modified), Diff(t,t) = {} and the swap law for every pair of tables over 4 (quick) / 6 "
         "(thorough: 531,441 pairs) abstract keys; every pair is built for real by cluster scaling (abstract key -> 85 or 255 real keys, so real "
         "255-row block boundaries are isomorphic to the model's) and run through the real diff.DiffTables with events, offsets and crash "
         "behaviour compared; seeded real-scale unaligned pairs (composite keys, no-PK tables, empty sides, one generated pair of more than 1024 / 2048 blocks projected with unchanged runs collapsed) are validated by TLC (TraceDiff.tla); "
         "`wrgl diff` through the command line on branches, files, a file against a branch and tables without a key.",
         "tables are built through the real ingest with unique keys; the interactive table widget of `wrgl diff` is not exercised (its row source RowChangeReader and the --no-gui output are)",
         "TLA+ spec Diff.tla; TLC-enumerated table pairs replayed into pkg/diff; TLC trace validation (TraceDiff.tla)",
         "DESIGN.md 5/C04"),
 "C16": ("pool", "model_checking",
         "IngestPool.tla models producer, workers and caller of the inserter's pool one action per critical section; TLC explores every "
         "interleaving (3 workers x 4 blocks x capacity 2, plus single store failures at four places) and checks MutualExclusion, NoLoss "
         "(= one-worker table), ErrorReported, NoSendAfterClose and, under weak fairness, that the caller always returns; Pipes.tla does the "
         "same for the differ -> mergeTables -> collector -> caller topology with its shared error channel; the pool model without the mutex "
         "must violate NoLoss (self-test). Real 1..16-worker ingests (GOMAXPROCS 1/2/4/16, seeded sleeps inside the hooks, injected store "
         "failures, the workers reporting to one visible progress bar whose Done + Wait must return) are recorded through the verif hooks and validated by TLC against TracePool.tla; the diff scenario set is replayed under "
         "seeded yields at every channel send, and a sample as `wrgl diff FILE FILE -n 8` on tables of up to 18 blocks (the command's own in-memory ingest); diff and merge scenarios are repeated with a read error injected at the k-th store read (once, "
         "and sticky = an unreadable object): every run must end and a fault that fired must be reported or not matter; thorough adds "
         "race-detector runs.",
         "real schedules are sampled, only the model's are exhaustive; worker ids / channel contents not logged",
         "TLA+ specs IngestPool.tla, Pipes.tla (TLC, all interleavings + liveness); TLC trace validation (TracePool.tla) of hook-recorded real executions",
         "DESIGN.md 5/C16"),
 "C19": ("ingest", "model_checking",
         "The sorter's design operators in Ingest.tla (sorted runs, k-way merge with the tie rule, dedupe against no previous key) are "
         "checked by TLC against the contract for every input of <=3 (quick) / <=4 (thorough) rows x 5 key shapes (composite keys whose first "
         "component ties, key column not first, no key) x 3 run sizes; every scenario x 8 removed-column sets (before / between / after the key "
         "columns) x padding across a 255-row boundary is replayed through BOTH real outputs (SortedBlocks decoded, SortedRows), compared "
         "with the expectation and with each other, and no spill file may remain after Close.",
         "removed columns are never key columns; with duplicate keys either duplicate may survive, but the same one in both outputs",
         "TLA+ spec Ingest.tla; TLC-enumerated scenarios replayed into pkg/sorter (both outputs)",
         "DESIGN.md 5/C19"),
 "C05": ("merge", "model_checking",
         "Merge.tla is the oracle: a cell-wise rule in which 'absent' is a value (row/column removal and addition are changes of cells), "
         "conflict = two different changes of one cell; TLC checks the statement's laws (merge(base;X,base)=X, merge(base;X,X)=X, order "
         "independence) over every ordered pair of branch versions (row ops x column ops add/remove/reorder/rename x key column at position "
         "1..3: 21,632 quick (half per run) / ~10^6 thorough pairs (a third per run)) and exports expected result, conflicting keys and the keys "
         "where the statement allows two outcomes; a reduced universe adds a THIRD branch (N-ary laws: order independence, a branch equal to "
         "the base is neutral) and MergeKeylessGen enumerates tables without a primary key (oracle Merge!KeylessResult); every scenario is "
         "realised as real tables (a sample cluster-scaled to multi-block tables), merged by the real pkg/merge as `wrgl merge` drives it "
         "(rows path and the commit path storing the merged table) and result / conflicts / columns are compared.",
         "the merge UI is not driven (conflicts are dropped and the rest judged); N=3 only in a reduced universe",
         "TLA+ spec Merge.tla (oracle + laws, TLC); TLC-enumerated branch pairs replayed into pkg/merge",
         "DESIGN.md 5/C05"),
 "C06": ("wire", "model_checking",
         "Wire.tla IS the on-disk / wire format: encoders and total decoders for string lists, uint lists, fields, times, commits, tables, "
         "blocks, block indices, profiles and the packfile header as TLA+ operators over run-length bytes; TLC checks Fits(v) => Dec(Enc(v)) = v, "
         "~Fits(v) => Err and injectivity on a universe with lengths 0/1/255/256/65534/65535/65536/70000, rows crossing 64 KiB, 0..3 parents, "
         "awkward times, all header lengths 1..2^17 + boundaries + sampled 64-bit (16,021 quick / 590,472 thorough vectors) and exports "
         "(value, bytes); for each vector the real writer must produce exactly those bytes, the real reader that value, Save* must store under "
         "prefix + hash(canonical bytes) once, and values that do not fit must be refused with an error.",
         "hash function and s2 compression trusted; times compared at the format's resolution; direct StrListEncoder.Encode (no error result) may panic as an assertion",
         "TLA+ spec Wire.tla (the format definition, TLC-checked); TLC-generated vectors replayed into pkg/objects, pkg/encoding",
         "DESIGN.md 5/C06"),
 "C07": ("transfer", "model_checking",
         "Transfer.tla models sender (EnqueueNextCommit / EnqueueTable / WriteObject / ClosePack) and receiver (RecvBlock / RecvTable only "
         "with all blocks present and indices rebuilt / RecvCommit only with all parents present / Reject leaving nothing behind); TLC "
         "explores the design (491,940 quick / 5.1M thorough states) and enumerates send scenarios (DAG fragments x block-sharing tables x "
         "packfile limits x destination pre-populated with every closed subset) and adversarial object orders with the accepted prefix; each is "
         "run through the real ObjectSender -> packfile bytes -> ObjectReceiver with stores compared byte for byte, rebuilt indices / profile "
         "checked, received tables judged by TraceTable.tla and diffed against the originals; receiver-hook traces of larger random histories "
         "are validated by TLC (TraceTransfer.tla).",
         "packfile size limits are byte thresholds in the real runs (1, 200, 3000, 6000, default); where a packfile closes is not a verdict",
         "TLA+ spec Transfer.tla (TLC); TLC-enumerated transfers replayed into pkg/api/utils + packfile; TLC trace validation (TraceTransfer.tla, TraceTable.tla)",
         "DESIGN.md 5/C07"),
 "C10": ("sync", "model_checking",
         "Sync.tla states the ref rules of fetch / push / merge (create, leave equal, existing tag only when forced, fast-forward or forced, "
         "else rejected with the ref unchanged and the others updated as if alone; a fast-forward merge moves the branch exactly to the other "
         "commit; every move logged with true old / new); TLC checks RulesForward and RejectionIsLocal on the model over history pairs equal / "
         "ahead / behind / diverged / unrelated x ref kinds x per-refspec and global force x ff / no-ff / ff-only and exports the expected refs; "
         "every scenario is run through the real `wrgl fetch` / `wrgl push` (against the reference server) / `wrgl merge`, refs compared, "
         "rejections must be reported, and TLC (TraceSync.tla) checks RefsForward and LogFaithful on the projected real before / after states "
         "with ancestry computed by the specification; System.tla behaviours (commit / reset / merge / branch / prune through the CLI) compare "
         "the whole reflog of every branch after every command, and RemoteCfg.tla checks which refs a configured fetch would update (refspec "
         "round trip, force / negate / tag / glob forms) after `wrgl remote` commands.",
         "the server is the harness's reference server (the real one is in another repository); real (non-ff) merges are C05's",
         "TLA+ spec Sync.tla (TLC); TLC-enumerated scenarios replayed through the real CLI; TLC trace validation (TraceSync.tla)",
         "DESIGN.md 5/C10"),
 "C11": ("graph", "model_checking",
         "Graph.tla defines ancestry, walks and the merge-base contract (AllowedBases) and transcribes the code's lock-step algorithm "
         "(SeekAsCoded); TLC enumerates all commit DAGs of 4 (quick) / 5 (thorough) commits x all clock assignments from {1,2,3} and exports "
         "ancestor sets and allowed bases; the harness builds real commits and checks ref.IsAncestorOf, CommitsQueue walks and "
         "ref.SeekCommonAncestor on every ordered tuple of 2..4 commits; traces of larger seeded random DAGs are validated by TLC (TraceGraph.tla).",
         "commit timestamps have one-second resolution; n=5 uses parent sets (not both parent orders)",
         "TLA+ spec Graph.tla; TLC-enumerated DAGs replayed into pkg/ref; TLC trace validation (TraceGraph.tla) with named deviations for known findings",
         "DESIGN.md 5/C11"),
 "C12": ("prune", "model_checking",
         "Prune.tla states reachability-based Must/MustNot sets and models mark-and-sweep as the code structures it; TLC enumerates all "
         "repositories of <=3 (quick) / <=4 (thorough, 595,056) commits over three block-sharing tables x ref subsets of every kind x absent "
         "(shallow) tables, plus a fourth table listing the first one's blocks under another primary key (same blocks, block indices of its own: R.bix); each is built for real (ingest-built tables, objmock or badger+sqlite) and run through prune.Prune / wrgl prune / "
         "wrgl gc twice, key sets compared with must/mustNot and every surviving commit re-read in full; traces of larger seeded "
         "repositories (also `wrgl gc` with a transaction TTL configured in the repository / the global configuration, under other machine time zones with transactions three hours from their TTL) are validated by TLC (TracePrune.tla).",
         "commit objects named by refs/parents exist; tables are complete or absent",
         "TLA+ spec Prune.tla; TLC-enumerated repositories replayed into pkg/prune and the CLI; TLC trace validation (TracePrune.tla)",
         "DESIGN.md 5/C12"),
 "C20": ("hashset", "model_checking",
         "HashSet.tla models the on-disk sorted hash set (bucket search through the fan-out, batched insertion grouped by insert offset, "
         "shift from the back, fan-out update, reopen); TLC checks Sorted, FanoutConsistent, exact membership after flush and reopen for all "
         "operation sequences to depth 7/11 and exports every sequence of depth 5 (quick: 98,304) / 6 (thorough: 786,432) with the allowed "
         "Has-answers; each is replayed on the real index.HashSet on a real file with answers and file projection compared; real-scale "
         "random traces (hundreds of hashes sharing first bytes 00/ff, batch 1..50, one session with a whole default batch of 1024 and one with a larger batch, repeats, reopen) are validated by TLC (TraceHashSet.tla).",
         "answers for added-but-unflushed hashes are free (statement speaks about the flushed set); Len() not judged",
         "TLA+ spec HashSet.tla; TLC-enumerated operation sequences replayed into pkg/index; TLC trace validation (TraceHashSet.tla)",
         "DESIGN.md 5/C20"),
 "C13": ("crash", "fault_enumeration",
         "Every store write of commit (new / existing branch), merge (fast-forward / merge commit), prune and gc, run through the real "
         "command line, is a crash point: the verif hooks in the badger and SQL stores record the write sequence and TLC (TraceCrash.tla) "
         "evaluates Crash!RepoConsistent (refs -> present commits, commits have parents, present tables have blocks / block indices / table "
         "index, written heads have their table) in the state after EVERY write on the structure scanned from the real stores; the real wrgl "
         "binary is killed at its n-th write for every n, the reopened store scanned and judged by the same invariant, the command re-run and "
         "its end state (refs, tables and history; for prune / gc also the inventory of commits, tables and blocks) compared with the uninterrupted run; CrashModel.tla (TLC) shows that every linearization of the safe precedence is "
         "consistent at every crash point and that the pre-repair orders are not.",
         "crash points are store-write boundaries; durability below the store API trusted; receive paths covered by the sync traces",
         "TLA+ specs Crash.tla / CrashModel.tla (TLC); TLC trace validation (TraceCrash.tla) of hook-recorded write sequences and of post-kill store scans of the real binary",
         "DESIGN.md 5/C13"),
 "C15": ("refs", "model_checking",
         "TLC explores the ref-store specification (Refs.tla) exhaustively over an alphabet of names with '_', '%', case variants "
         "and nested prefixes; every transition of the model's state graph is replayed on the real SQL ref store with return value "
         "and projected store compared (a transition cover taken over the abstract state plus 'the last operation was a copy / rename', so that every operation is also explored right after one; log entries compared whole - old, new and author / action / message / transaction id as the kind of entry), and seeded real-scale operation traces recorded from the real store are "
         "validated against the specification by TLC (TraceRefs.tla); the cover is replayed on the file ref store (pkg/ref/fs) as well, for the "
         "operations it implements (RefsGen!FsStep decides); RemoteCfg.tla models `wrgl remote add / rename / remove / set-branches` and "
         "`wrgl config` over the ref model, and its transition cover and seeded traces run through the real CLI with config, whole ref "
         "store, logs and fetch map compared after every command (bulk moves / deletes touch exactly one remote's refs).",
         "sqlite driver trusted; names from fixed alphabets; bounded depth (3 quick / 4 thorough) for the cover, length 80/150 for traces",
         "TLA+ spec Refs.tla; TLC transition cover replayed into pkg/ref/sql; TLC trace validation of recorded real executions",
         "DESIGN.md 5/C15"),
 "C14": ("txn", "fault_enumeration",
         "Txn.tla unfolds transaction.Commit as the per-branch loop NewCommit(b) / MoveBranch(b) and MarkCommitted, Discard as "
         "DeleteStagedRef(b)* / DeleteTxRow, with Fail and Crash enabled before EVERY store operation, re-runs and interleaved plain commits; "
         "TLC checks TerminalOutcomes (all / none / completable by a re-run with exactly one new commit per branch), NeverDuplicates, "
         "DiscardKeepsHeads and CommittedRefuses over all interleavings; TxnGen enumerates 1..3 staged branches (new / existing) x "
         "sequences of commit / discard x an error or crash at every store-operation index and exports the SET of allowed observation "
         "sequences; each scenario runs on the real transaction.Commit / Discard over fault-injecting wrappers around both stores (a sample "
         "through `wrgl transaction commit|discard` with crashes at the store-write hooks, staged with the real `wrgl commit --txid` in both of its forms) and heads, reflogs, transaction row, staged refs "
         "and commit objects are tested for membership; seeded multi-transaction histories are validated by TLC (TraceTxn.tla).",
         "failure points are store-operation boundaries (sqlite / badger trusted below their API, see C13)",
         "TLA+ spec Txn.tla (TLC, all interleavings and failure points); TLC-enumerated fault scenarios replayed into pkg/transaction and the CLI; TLC trace validation (TraceTxn.tla)",
         "DESIGN.md 5/C14"),
 "C17": ("hostile", "exploration",
         "Wire.tla's decoders are TOTAL (Ok or Err for any byte string); WireMut.tla derives from that grammar structured mutations of every "
         "valid encoding (truncation at every segment boundary +-1 and mid-segment, every count / length field set to 0, +1, 0xFFFF, 2^24, "
         "0xFFFFFFFF, labels altered, bits flipped, trailing garbage, packfile types 0..7 and lengths to 2^64-1), ALL byte strings of length "
         "<= 6 (quick) / <= 9 (thorough) over a 4-letter alphabet for the leaf decoders, and packfiles of well-formed objects that are wrong "
         "as a whole, each with the specification's verdict ok / either / err; every input is fed to every real entry point of its kind "
         "(Read*From, Validate*Bytes, Get* over a store, list decoders, ReadPktLine, PackfileReader, ObjectReceiver.Receive) in worker "
         "processes under RLIMIT_AS: each call must return (with an error where the specification says err), never panic, never exceed "
         "10 s, never allocate more than 64 MiB + 64 x len(input), and a refused packfile object must leave the store as it was.",
         "bounded grammar-derived exploration, not coverage-guided fuzzing; the ceilings are measured by the harness, not derived from the specification",
         "TLA+ spec Wire.tla (total decoders) + WireMut.tla: TLC-enumerated hostile inputs with the specification's verdict replayed into every real decoder entry point and the object receiver",
         "DESIGN.md 5/C17"),
 "C18": ("stream", "model_checking",
         "Stream.tla is the io.Reader contract as a state machine (Read returns any n in 1..min(req, remaining); EOF with the last bytes or "
         "later) under a decoder reading the format's fields; TLC explores EVERY delivery schedule of the stream plans and checks "
         "ChunkingTheorem (decoded fields and end-of-stream condition equal the whole-buffer delivery), and the same model with a single-Read "
         "decoder MUST violate it (self-test); StreamGen enumerates per stream (packfile, pkt-lines, commit, table, block, block index, uint "
         "list, string list, profile) every subset of K=6..10 (quick) / 8..16 (thorough: 478,144 schedules) interesting cut points x both EOF "
         "placements, all-1-byte and 1-then-rest; each schedule is delivered by a scripted io.Reader into the REAL decoders and the result "
         "compared with the whole-buffer decode; the scripted reader's own call logs are validated by TLC (TraceStream.tla).",
         "readers honour the io.Reader contract (n >= 1 unless EOF; no transport errors); streams are valid encodings built from Wire.tla (bound by C06)",
         "TLA+ spec Stream.tla (TLC, all delivery schedules); TLC-enumerated schedules replayed into pkg/encoding, pkg/objects decoders; TLC trace validation (TraceStream.tla)",
         "DESIGN.md 5/C18"),
 "C09": ("sync", "model_checking",
         "Sync.tla states what a fetch / push must leave behind (HistoryComplete: every created or moved ref points at a commit whose whole "
         "ancestry is present, with the tables of the commits within depth; Monotone; tags followed only onto full commits); SyncGen "
         "enumerates history pairs equal / ahead / behind / diverged / unrelated with merges x refspec sets x depth x force and TLC exports the "
         "expected refs, commits and tables; every scenario runs through the real `wrgl fetch` / `wrgl push` / `wrgl pull` against the "
         "reference server assembled from the repository's own sender / receiver / negotiation code, stores compared object by object, the "
         "operation immediately repeated (must transfer and change nothing); library-level sessions (UploadPackSession / ReceivePackSession) "
         "repeat a sample with 1..k haves per round trip and small packfile limits; TLC (TraceSync.tla) judges the projected real before / "
         "after states with ancestry computed by the specification.",
         "the server is the harness's reference server built from pkg/api/utils (the production server lives in another repository)",
         "TLA+ spec Sync.tla (TLC); TLC-enumerated scenarios replayed through the real CLI and client sessions; TLC trace validation (TraceSync.tla)",
         "DESIGN.md 5/C09"),
 "C08": ("negotiate", "model_checking",
         "Negotiate.tla states the contract (RefuseOK, AcksOK, Closed, ParentFirst, NoExtra, tables exactly within depth, WorkOK with a "
         "polynomial bound on object-store reads) and the design structured as the code (EnsureReachable, FindCommons on the shared "
         "time-ordered frontier, EnqueueWants per want with a visited set and post-order emission); TLC checks DesignOK for every order of "
         "the wants and enumerates all commit DAGs of <=3 commits (complete) and 4 commits (quick: head refs, <=2 wants; thorough: every "
         "ref set, <=3 wants, plus a seeded quarter of the 5-commit universe) x clocks inconsistent with topology x want sets x have "
         "batches incl. unknown hashes over several rounds x depth 0..3 x a missing table, plus ladders of 10..40 stacked merges; each is "
         "run on the real ClosedSetsFinder over real commits and a real SQL ref store behind a counting object store (2.7M negotiations quick) "
         "with acks, CommitsToSend order, TablesToSend and read counts judged; recorded random criss-cross histories are validated by TLC "
         "(TraceNegotiate.tla).",
         "a reachable want whose table is absent may be refused; table selection through acknowledged commons is not constrained from below; Poly(n) = 8n^2+64n reads",
         "TLA+ spec Negotiate.tla (TLC); TLC-enumerated histories x wants x haves replayed into pkg/api/utils ClosedSetsFinder; TLC trace validation (TraceNegotiate.tla)",
         "DESIGN.md 5/C08"),
}

NOT_YET = {
}

def main():
    props = [json.loads(l) for l in open(os.path.join(V, "properties.jsonl"))]
    checks, na = [], []
    for p in props:
        pid = p["id"]
        if pid in CHECKS:
            eng, cat, text, note, tech, ref = CHECKS[pid]
            checks.append({
                "property_id": pid,
                "quick_cmd": "python3 bin/check %s --tier quick" % pid,
                "thorough_cmd": "python3 bin/check %s --tier thorough" % pid,
                "evidence_file": "evidence/%s.json" % pid,
                "replay_cmd_template": "python3 bin/check %s --replay {path}" % pid,
                "engine": eng,
                "level_claimed": {"category": cat, "text": text, "design_ref": ref},
                "level_note": note,
                "technique": tech,
            })
        else:
            na.append({"property_id": pid, "reason": NOT_YET.get(pid, "check under construction in this session: the specification module and its binding are not registered yet (see DESIGN.md section 12 for the order of work)")})
    hooks_commits = []
    try:
        out = subprocess.run(["git", "-C", "/repo", "log", "--format=%H %s"], capture_output=True, text=True).stdout
        hooks_commits = [l.split()[0] for l in out.splitlines() if " verif hook" in l or l.split(" ", 1)[1].startswith("verif:")]
    except Exception:
        pass
    engines = {}
    for pid, c in CHECKS.items():
        engines.setdefault(c[0], []).append(pid)
    m = {
        "version": 1,
        "setup_cmd": "bin/setup",
        "hooks": {"guard": "verif", "enable": "go build -tags verif (the harness module builds /repo through a replace directive)",
                  "baseline_off_cmd": BASELINE_OFF, "source_commits": hooks_commits, "add_only": True},
        "engines": [{"name": e, "path": "spec/ + harness/internal/%s" % e, "serves_properties": sorted(ps),
                     "kind_free_text": "TLA+ module(s) checked by TLC + Go replay/record binding"} for e, ps in sorted(engines.items())],
        "checks": checks,
        "not_applicable": na,
        "notes": "Every check: python3 bin/check <id> --tier quick|thorough; exit 0 held, 1 VIOLATION line, 2 inconclusive. See DESIGN.md.",
    }
    with open(os.path.join(V, "MANIFEST.json"), "w") as f:
        json.dump(m, f, indent=1)
    print("MANIFEST.json: %d checks, %d not_applicable" % (len(checks), len(na)))

main()
