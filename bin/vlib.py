"""Common machinery of bin/check: scratch space, harness build, TLC runs, child
supervision, verdicts, known findings, evidence.  Python stdlib only."""
import atexit, json, os, re, shutil, signal, subprocess, sys, tempfile, threading, time, hashlib

VERIF = os.path.dirname(os.path.dirname(os.path.abspath(__file__)))
REPO = os.environ.get("VERIF_REPO", "/repo")
SPEC = os.path.join(VERIF, "spec")
HARNESS = os.path.join(VERIF, "harness")
EVIDENCE = os.path.join(VERIF, "evidence")
REPLAYS = os.path.join(VERIF, "replays")
if REPO != "/repo":
    # development aid (a check run against a scratch worktree): the evidence of /verif describes /repo only
    EVIDENCE = os.path.join("/tmp", "verif-alt-evidence")
if os.environ.get("VERIF_EVIDENCE_DIR"):   # development aid (runs with other seeds)
    EVIDENCE = os.environ["VERIF_EVIDENCE_DIR"]
TLA_CP = "/opt/veriftools/tla/tla2tools.jar:/opt/veriftools/tla/CommunityModules-deps.jar"
NCPU = os.cpu_count() or 4

GOENV = dict(GOFLAGS="-mod=mod", GOPROXY="off", GOSUMDB="off", GOTOOLCHAIN="local", CGO_ENABLED="1")


class Inconclusive(Exception):
    """Tool trouble: never a verdict (exit 2)."""


_scratch = None


def scratch():
    global _scratch
    if _scratch is None:
        base = os.environ.get("VERIF_SCRATCH_BASE") or tempfile.gettempdir()
        _scratch = tempfile.mkdtemp(prefix="verif-", dir=base)
        atexit.register(lambda: shutil.rmtree(_scratch, ignore_errors=True))
    return _scratch


def sub(name):
    p = os.path.join(scratch(), name)
    os.makedirs(p, exist_ok=True)
    return p


def log(*a):
    print("[check]", *a, file=sys.stderr, flush=True)


# --------------------------------------------------------------------------- build

_built = {}


def build_harness(race=False):
    """go build -tags verif of the harness against /repo's current working tree."""
    key = "race" if race else "plain"
    if key in _built:
        return _built[key]
    out = os.path.join(sub("bin"), "wconf" + ("-race" if race else ""))
    env = dict(os.environ, **GOENV)
    hdir = HARNESS
    if os.path.realpath(REPO) != "/repo":
        # development aid: build against a scratch worktree of wrgl (VERIF_REPO) without touching /repo
        hdir = os.path.join(scratch(), "harness-src")
        if not os.path.isdir(hdir):
            shutil.copytree(HARNESS, hdir)
            gm = open(os.path.join(hdir, "go.mod")).read().replace("=> /repo", "=> " + os.path.realpath(REPO))
            open(os.path.join(hdir, "go.mod"), "w").write(gm)
    if not os.path.exists(os.path.join(hdir, "go.sum")):
        shutil.copy(os.path.join(REPO, "go.sum"), os.path.join(hdir, "go.sum"))
    cmd = ["go", "build", "-tags", "verif", "-o", out]
    if race:
        cmd.append("-race")
    cmd.append("./cmd/wconf")
    t = time.time()
    p = subprocess.run(cmd, cwd=hdir, env=env, capture_output=True, text=True)
    if p.returncode != 0:
        raise Inconclusive("harness build failed:\n" + p.stdout + p.stderr)
    log("harness built in %.1fs" % (time.time() - t))
    _built[key] = out
    return out


def build_wrgl():
    """The stand-alone wrgl binary built with the verif tag (for kill-the-process runs)."""
    if "wrgl" in _built:
        return _built["wrgl"]
    out = os.path.join(sub("bin"), "wrgl")
    env = dict(os.environ, **GOENV)
    p = subprocess.run(["go", "build", "-tags", "verif", "-o", out, "."], cwd=REPO, env=env,
                       capture_output=True, text=True)
    if p.returncode != 0:
        raise Inconclusive("wrgl build failed:\n" + p.stdout + p.stderr)
    _built["wrgl"] = out
    return out


# --------------------------------------------------------------------------- TLC

class TLCResult:
    def __init__(self):
        self.generated = 0
        self.distinct = 0
        self.depth = 0
        self.ok = False          # "No error has been found"
        self.rejected_at = None  # REJECTED_AT_LINE n
        self.rejected_event = None
        self.broken = {}         # line -> clause name printed by the trace spec
        self.violated = []       # names of invariants TLC reported as violated
        self.error_text = ""
        self.wall = 0.0
        self.scn = 0
        self.coverage_zero = []
        self.output_tail = ""


_spec_copy = None


def spec_copy():
    """A private copy of spec/ (TLC litters its working directory)."""
    global _spec_copy
    if _spec_copy is None:
        d = sub("spec")
        for root, _, files in os.walk(SPEC):
            for f in files:
                if f.endswith(".tla") or f.endswith(".cfg"):
                    shutil.copy(os.path.join(root, f), os.path.join(d, f))
        _spec_copy = d
    return _spec_copy


_tlc_seq = [0]


_tlc_lock = threading.Lock()


def run_tlc(module, cfg, workers=None, scn_out=None, env=None, simulate=None, depth=None, seed=None,
            timeout=1800, heap=None, coverage=False, extra=None, dfs=False, on_scn=None):
    """Runs TLC on spec/<module>.tla with spec/cfg/<cfg>.  SCN lines are unescaped and
    written to scn_out (one JSON document per line).  Returns TLCResult; raises
    Inconclusive on tool trouble."""
    d = spec_copy()
    with _tlc_lock:   # (several TLC runs side by side: two of them once shared a metadir, the first to end removed it)
        _tlc_seq[0] += 1
        my_seq = _tlc_seq[0]
    meta = os.path.join(sub("tlcmeta"), "m%d" % my_seq)
    jopts = ["-XX:+UseParallelGC", "-Xss64m", "-Djava.io.tmpdir=" + sub("tlctmp")]   # (TLC leaves a tlc-<n> directory per run)
    if heap:
        jopts.append("-Xmx" + heap)
    if dfs:
        jopts.append("-Dtlc2.tool.queue.IStateQueue=StateDeque")
    cmd = ["java"] + jopts + ["-cp", TLA_CP, "tlc2.TLC", "-metadir", meta, "-config", cfg,
                              "-workers", str(workers or NCPU)]
    if simulate is not None:
        cmd += ["-simulate", "num=%d" % simulate]
        if depth:
            cmd += ["-depth", str(depth)]
    if seed is not None:
        cmd += ["-seed", str(seed)]
    if coverage:
        cmd += ["-coverage", "1"]
    if extra:
        cmd += extra
    cmd.append(module + ".tla")
    e = dict(os.environ)
    if env:
        e.update(env)
    res = TLCResult()
    t0 = time.time()
    out_f = open(scn_out, "w") if scn_out else None
    tail = []
    try:
        p = subprocess.Popen(cmd, cwd=d, env=e, stdout=subprocess.PIPE, stderr=subprocess.STDOUT, text=True,
                             errors="replace", start_new_session=True)
        timer = threading.Timer(timeout, lambda: os.killpg(p.pid, signal.SIGKILL))
        timer.start()
        try:
            for line in p.stdout:
                if line.startswith('<<"SCN", "'):
                    body = line.rstrip("\n")
                    body = body[len('<<"SCN", '):-2]
                    try:
                        doc = json.loads(body)
                    except Exception:
                        raise Inconclusive("unparsable SCN line: " + line[:200])
                    res.scn += 1
                    if on_scn:
                        on_scn(doc)
                    if out_f:
                        out_f.write(doc)
                        out_f.write("\n")
                    continue
                tail.append(line)
                if len(tail) > 400:
                    del tail[:200]
                m = re.search(r"(\d+) states generated, (\d+) distinct states found", line)
                if m:
                    res.generated, res.distinct = int(m.group(1)), int(m.group(2))
                m = re.search(r"depth of the complete state graph search is (\d+)", line)
                if m:
                    res.depth = int(m.group(1))
                if "No error has been found" in line:
                    res.ok = True
                m = re.search(r"Invariant (\w+) is violated", line)
                if m:
                    res.violated.append(m.group(1))
                if "Temporal properties were violated" in line:
                    res.violated.append("<temporal>")
                m = re.match(r'<<"BROKEN", (\d+), "([^"]*)">>', line)
                if m:
                    res.broken[int(m.group(1))] = m.group(2)
                m = re.match(r'<<"REJECTED_AT_LINE", (\d+)>>', line)
                if m:
                    res.rejected_at = int(m.group(1))
                if coverage:
                    m = re.match(r"\s*<(\w+) line (\d+), col \d+ to line \d+, col \d+ of module (\w+)>: (\d+):(\d+)", line)
                    if m and m.group(4) == "0" and m.group(5) == "0":
                        res.coverage_zero.append("%s@%s:%s" % (m.group(1), m.group(3), m.group(2)))
            p.wait()
        finally:
            timer.cancel()
    finally:
        if out_f:
            out_f.close()
        shutil.rmtree(meta, ignore_errors=True)
    res.wall = time.time() - t0
    log("TLC %s/%s: %d generated, %d distinct, %d SCN, %.1fs%s" % (module, cfg, res.generated, res.distinct, res.scn, res.wall,
                                                              "" if res.ok else " (not ok)"))
    joined = "".join(tail)
    k = joined.rfind("Starting... (")
    res.output_tail = joined[k:] if k >= 0 else "".join(tail[-80:])
    res.output_tail = res.output_tail[-6000:]
    if p.returncode is not None and p.returncode < 0:
        raise Inconclusive("TLC killed (timeout %ds) on %s/%s" % (timeout, module, cfg))
    if not res.ok and res.rejected_at is None:
        res.error_text = res.output_tail
    return res


def require_ok(res, what):
    """Use (A): the model itself must check clean; anything else is a problem of the
    specification or the tool, hence inconclusive."""
    if not res.ok:
        raise Inconclusive("TLC did not succeed on %s:\n%s" % (what, res.output_tail))


# --------------------------------------------------------------------------- children

class ReplayOutcome:
    def __init__(self):
        self.total = 0
        self.passed = 0
        self.classes = {}
        self.failures = []   # (index, sig, detail)
        self.crashes = []    # (index, text)
        self.timeouts = []   # index
        self.truncated = []  # shards given up after 200 attributed crashes
        self.errors = []     # (index, text)
        self.side = []       # side-channel documents ("O" lines), as JSON text
        self.unreproduced = []  # (index, sig): failures that did not happen again in two isolated re-runs (not counted)


def _run_child(binary, engine, infile, shard, nshards, after, only, timeout, env, rlimit_as, extra, cb):
    cmd = [binary, "replay", engine, "--in", infile, "--shard", "%d/%d" % (shard, nshards),
           "--timeout", "%ds" % timeout]
    if after is not None:
        cmd += ["--after", str(after)]
    if only is not None:
        cmd += ["--only", str(only)]
    if extra:
        cmd += extra

    def pre():
        os.setsid()
        if rlimit_as:
            import resource
            resource.setrlimit(resource.RLIMIT_AS, (rlimit_as, rlimit_as))

    cdir = tempfile.mkdtemp(prefix="child-", dir=sub("children"))
    e = dict(os.environ, TMPDIR=cdir, HOME=cdir, XDG_CONFIG_HOME=os.path.join(cdir, "cfg"))
    if env:
        e.update(env)
    p = subprocess.Popen(cmd, stdout=subprocess.PIPE, stderr=subprocess.PIPE, text=True, errors="replace",
                         preexec_fn=pre, env=e, cwd=cdir)
    errbuf = []
    th = threading.Thread(target=lambda: errbuf.append(p.stderr.read()), daemon=True)
    th.start()
    inflight = None
    for line in p.stdout:
        if not line.strip():
            continue
        tag, _, rest = line.rstrip("\n").partition(" ")
        if tag == "B":
            inflight = int(rest)
        elif tag in ("K", "F", "E"):
            idx, _, payload = rest.partition(" ")
            cb(tag, int(idx), payload)
            inflight = None
        elif tag == "T":
            cb("T", int(rest), "")
            inflight = None
        elif tag == "O":
            cb("O", inflight if inflight is not None else -1, rest)
    p.wait()
    th.join(2)
    shutil.rmtree(cdir, ignore_errors=True)
    return p.returncode, inflight, (errbuf[0] if errbuf else "")


UNREPRODUCED = []      # every report of this run that two isolated re-runs did not show again (goes into the evidence)
CONFIRM_FAILURES = 40  # at most this many reported failures are re-run in isolation before they count (more = systematic)
NONDET_ENGINES = {"pool", "wireconc"}   # engines that sample schedules: a failure need not happen again
MAX_TIMEOUTS = 6      # confirmed-or-not hangs after which a shard stops exploring
RETRY_TIMEOUTS = 4    # hangs retried in isolation (with 4x the time) before they count
RETRY_CRASHES = 48    # child deaths re-run in isolation before they count


def replay(engine, infile, nshards=None, timeout=30, env=None, rlimit_as=None, race=False, extra=None,
           crash_is_violation=True, side_path=None, confirm=None):
    """Feeds every scenario of infile to `wconf replay <engine>` children.  A child that
    dies is attributed to the scenario in flight; the shard is restarted after it.
    confirm (default: engines that are deterministic functions of the scenario, no VERIF_YIELD): a handful of
    reported failures is re-run in isolation, twice; one that passes both times is not counted (a verdict has
    to come from behaviour of the real code that can be shown again) but logged and kept in out.unreproduced."""
    if confirm is None:
        confirm = engine not in NONDET_ENGINES and not (env and env.get("VERIF_YIELD"))
    binary = build_harness(race=race)
    nshards = nshards or NCPU
    t_start = time.time()
    out = ReplayOutcome()
    lock = threading.Lock()
    side_out = open(side_path, "w") if side_path else None
    side_idx = []   # scenario index of every side line written (parallel to the file / to out.side)

    def cb(tag, idx, payload):
        with lock:
            if tag == "O":
                if side_out is not None:
                    side_out.write(payload + "\n")
                else:
                    out.side.append(payload)
                side_idx.append(idx)
                return
            out.total += 1
            if tag == "K":
                out.passed += 1
                out.classes[payload] = out.classes.get(payload, 0) + 1
            elif tag == "F":
                d = json.loads(payload)
                out.failures.append((idx, d.get("sig", "?"), d.get("detail")))
            elif tag == "E":
                out.errors.append((idx, payload))
            elif tag == "T":
                out.timeouts.append(idx)

    def worker(k):
        after = None
        restarts = 0
        while True:
            rc, inflight, err = _run_child(binary, engine, infile, k, nshards, after, None, timeout, env,
                                           rlimit_as, extra, cb)
            if rc == 0:
                return
            if rc == 3 and inflight is None:
                # watchdog already reported T for the scenario; find where to resume
                with lock:
                    last = max([i for i in out.timeouts if i % nshards == k] or [-1])
                    too_many = len(out.timeouts) >= MAX_TIMEOUTS
                after = last
                if too_many:
                    # hangs cost `timeout` seconds each: a handful establishes the verdict, the rest of the
                    # shard stays unexplored
                    with lock:
                        out.truncated.append(k)
                    return
            elif inflight is not None:
                with lock:
                    out.total += 1
                    out.crashes.append((inflight, (err[:1500] + "\n...\n" + err[-2500:]) if len(err) > 4000 else err))
                after = inflight
            else:
                with lock:
                    out.errors.append((-1, "child exited rc=%s without scenario in flight: %s" % (rc, err[-2000:])))
                return
            restarts += 1
            if restarts > 200:
                # every restart was a death or hang of the real code attributed to a scenario: the shard's
                # remaining scenarios stay unexplored, the crashes recorded so far are the verdict
                with lock:
                    out.truncated.append(k)
                return

    ths = [threading.Thread(target=worker, args=(k,)) for k in range(nshards)]
    for t in ths:
        t.start()
    for t in ths:
        t.join()
    # timeouts are retried once in isolation, with four times the time (a loaded machine is not a hang),
    # before they count
    # (at most RETRY_TIMEOUTS of them, concurrently; hangs beyond those are neither retried nor claimed)
    confirmed = []
    to_retry = sorted(out.timeouts)[:RETRY_TIMEOUTS]

    def retry(idx):
        res = []
        rc, inflight, err = _run_child(binary, engine, infile, 0, 1, None, idx, timeout * 4, env, rlimit_as, extra,
                                       lambda tag, i, payload: res.append((tag, i, payload)))
        if any(t == "T" for t, _, _ in res) or (rc not in (0,) and not res):
            with lock:
                confirmed.append(idx)
        else:
            for tag, i, payload in res:
                if tag in ("K", "F", "E"):
                    with lock:
                        out.total -= 1   # the scenario was already counted when its time-out was reported
                cb(tag, i, payload)
    rths = [threading.Thread(target=retry, args=(idx,)) for idx in to_retry]
    for t in rths:
        t.start()
    for t in rths:
        t.join()
    out.timeouts = sorted(confirmed)
    # child deaths are re-run in isolation as well: a death that does not happen again (the machine ran out of
    # threads or memory, a signal from outside) is not a verdict; only the first RETRY_CRASHES are re-run, and
    # the rest is believed only when those were reproduced
    # a Go panic raised inside wrgl's own code is the code's doing whether or not the schedule that led to it
    # comes back; only deaths WITHOUT such a panic (the runtime giving up, a signal) need to happen again
    def own_panic(text):
        return ("panic: " in text or "fatal error: all goroutines are asleep" in text or "concurrent map" in text) and \
            "github.com/wrgl/wrgl/" in text and "out of memory" not in text and "newosproc" not in text
    sure = [c for c in out.crashes if own_panic(c[1])]
    crashed = [c for c in out.crashes if not own_panic(c[1])]
    reproduced, passed_now = list(sure), []

    def recrash(item):
        idx, text = item
        res = []
        rc, inflight, err = _run_child(binary, engine, infile, 0, 1, None, idx, timeout * 4, env, rlimit_as, extra,
                                       lambda tag, i, payload: res.append((tag, i, payload)))
        done = [r for r in res if r[0] in ("K", "F", "E", "T")]
        if done:
            with lock:
                passed_now.append(idx)
            for tag, i, payload in res:
                if tag in ("K", "F", "E", "T"):
                    with lock:
                        out.total -= 1
                cb(tag, i, payload)
        else:
            with lock:
                reproduced.append((idx, (err[:1200] + "\n...\n" + err[-2800:]) if len(err) > 4000 else err))
    sem = threading.Semaphore(min(8, NCPU))

    def guarded(item):
        with sem:
            recrash(item)
    cths = [threading.Thread(target=guarded, args=(it,)) for it in crashed[:RETRY_CRASHES]]
    for t in cths:
        t.start()
    for t in cths:
        t.join()
    rest = crashed[RETRY_CRASHES:]
    if out.crashes:
        if rest and (len(reproduced) - len(sure)) * 10 < len(crashed[:RETRY_CRASHES]) * 9:
            # most of the re-run deaths did not happen again: the others are not believed either
            out.errors.append((-1, "%d child deaths were not re-run and %d of the %d re-run ones did not happen again" %
                               (len(rest), len(passed_now), len(crashed[:RETRY_CRASHES]))))
            rest = []
        out.crashes = sorted(reproduced) + rest
        if passed_now:
            log("replay %s: %d child death(s) did not happen again in isolation (not counted)" % (engine, len(passed_now)))
    # reported failures: confirmed by re-execution when they are few
    retract = {}
    if confirm and 0 < len(out.failures) <= CONFIRM_FAILURES:
        def again(item):
            idx, sig, _ = item
            last = None
            for _ in range(2):
                res = []
                _run_child(binary, engine, infile, 0, 1, None, idx, timeout * 2, env, rlimit_as, extra,
                           lambda tag, i, payload: res.append((tag, i, payload)))
                verdicts = [t for t, _, _ in res if t in ("K", "F", "E", "T")]
                if verdicts != ["K"]:
                    return   # failed again (or could not be re-run): the report stands
                last = res
            with lock:
                retract[idx] = last
        aths = [threading.Thread(target=again, args=(it,)) for it in out.failures]
        for i in range(0, len(aths), 8):
            for t in aths[i:i + 8]:
                t.start()
            for t in aths[i:i + 8]:
                t.join()
        if retract:
            for idx, sig, _ in out.failures:
                if idx in retract:
                    out.unreproduced.append((idx, sig))
                    UNREPRODUCED.append({"engine": engine, "scenario_index": idx, "signature": sig})
                    log("NOTE replay %s: scenario %d reported %s once and passed two isolated re-runs: not counted" % (engine, idx, sig))
            out.failures = [f for f in out.failures if f[0] not in retract]
            # the side lines of the first execution are replaced by those of the last re-run
            if side_out:
                side_out.close()
                with open(side_path) as f:
                    kept = [ln for ln, i in zip(f.readlines(), side_idx) if i not in retract]
                side_out = open(side_path, "w")
                side_out.writelines(kept)
            else:
                out.side = [ln for ln, i in zip(out.side, side_idx) if i not in retract]
            for idx, res in retract.items():
                for tag, i, payload in res:
                    if tag == "O":
                        if side_out:
                            side_out.write(payload + "\n")
                        else:
                            out.side.append(payload)
                    elif tag == "K":
                        out.passed += 1
                        out.classes[payload] = out.classes.get(payload, 0) + 1
    log("replay %s: %d scenarios, %d ok, %d failed, %d crashed, %d timed out, %.1fs" %
        (engine, out.total, out.passed, len(out.failures), len(out.crashes), len(out.timeouts), time.time() - t_start))
    if side_out:
        side_out.close()
    return out


def read_line(path, idx):
    with open(path) as f:
        for i, line in enumerate(f):
            if i == idx:
                return line.rstrip("\n")
    return None


def run_record(engine, args, timeout=1200, env=None, race=False):
    binary = build_harness(race=race)
    cdir = tempfile.mkdtemp(prefix="rec-", dir=sub("children"))
    e = dict(os.environ, TMPDIR=cdir, HOME=cdir)
    if env:
        e.update(env)
    try:
        p = subprocess.run([binary, "record", engine] + args, capture_output=True, text=True, timeout=timeout,
                           env=e, cwd=cdir)
    except subprocess.TimeoutExpired:
        raise Inconclusive("recorder %s timed out" % engine)
    finally:
        shutil.rmtree(cdir, ignore_errors=True)
    return p


# --------------------------------------------------------------------------- trace validation

def split_traces(path):
    """Splits a concatenated trace file at its reset lines -> list of (first_line_no, [lines])."""
    traces = []
    with open(path) as f:
        cur = None
        for no, line in enumerate(f, 1):
            if '"op":"reset"' in line or '"op": "reset"' in line or cur is None:
                cur = (no, [])
                traces.append(cur)
            cur[1].append(line)
    return traces


def validate_traces(module, cfg, trace_path, timeout=1800, heap=None, max_rejections=5, extra_env=None):
    """Runs the trace specification over the concatenated trace file.  On rejection the
    enclosing single trace is cut out and the rest re-validated, so one rejection never
    leaves the remainder unexamined.  Returns (n_traces, n_events, rejections[list of dict],
    TLCResult of the last run)."""
    traces = split_traces(trace_path)
    n_traces = len(traces)
    n_events = sum(len(t[1]) for t in traces)
    rejections = []
    remaining = traces
    last = None
    rounds = 0
    while remaining:
        rounds += 1
        cur = os.path.join(sub("traces"), "cur%d.ndjson" % rounds)
        offsets = []
        with open(cur, "w") as f:
            n = 0
            for first, lines in remaining:
                offsets.append((n + 1, n + len(lines)))
                for ln in lines:
                    f.write(ln)
                n += len(lines)
        env = {"TRACE": cur}
        if extra_env:
            env.update(extra_env)
        res = run_tlc(module, cfg, workers=1, env=env, timeout=timeout, heap=heap)
        last = res
        if res.ok:
            break
        if res.rejected_at is None:
            raise Inconclusive("trace validation of %s failed without a rejection line:\n%s" % (module, res.output_tail))
        # which trace holds the rejected line?
        hit = None
        for ti, (a, b) in enumerate(offsets):
            if a <= res.rejected_at <= b:
                hit = ti
                break
        if hit is None:
            raise Inconclusive("rejected line %s outside every trace" % res.rejected_at)
        first, lines = remaining[hit]
        rejections.append({"trace_first_line": first, "line_in_trace": res.rejected_at - offsets[hit][0] + 1,
                           "clause": res.broken.get(res.rejected_at, ""),
                           "event": lines[res.rejected_at - offsets[hit][0]].strip(), "trace": lines})
        remaining = remaining[:hit] + remaining[hit + 1:]
        if len(rejections) >= max_rejections:
            break
    return n_traces, n_events, rejections, last


# --------------------------------------------------------------------------- verdicts

def load_known():
    out = []
    paths = [os.path.join(VERIF, "known_findings.json")]
    d = os.path.join(VERIF, "known_findings.d")
    if os.path.isdir(d):
        paths += sorted(os.path.join(d, f) for f in os.listdir(d) if f.endswith(".json"))
    for p in paths:
        if os.path.exists(p):
            with open(p) as f:
                out += json.load(f).get("findings", [])
    return out


CURRENT = None


class Verdict:
    """Collects violations of one property run, separates known findings, writes replay
    files, prints the contract lines and computes the exit code."""

    def __init__(self, prop, tier, seed):
        self.prop, self.tier, self.seed = prop, tier, seed
        self.violations = []   # dict(sig, replay)
        self.known = {}        # sig -> (what, count)
        self.known_defs = [k for k in load_known() if k.get("property") == prop and k.get("status") == "open"]
        self.t0 = time.time()
        self.notes = []
        global CURRENT
        CURRENT = self
        os.makedirs(REPLAYS, exist_ok=True)
        for f in os.listdir(REPLAYS):
            if f.startswith(prop + "-"):
                os.remove(os.path.join(REPLAYS, f))

    def _match_known(self, sig, scenario):
        for k in self.known_defs:
            if k.get("signature") == sig:
                return k
            pat = k.get("signature_regex")
            if pat and re.fullmatch(pat, sig):
                return k
        return None

    def violation(self, sig, replay_doc):
        """replay_doc: dict with engine, scenario/trace, expected, observed ..."""
        k = self._match_known(sig, replay_doc)
        if k is not None:
            what = k.get("what", sig)
            c = self.known.get(k["id"], (what, 0))[1]
            self.known[k["id"]] = (what, c + 1)
            return
        if len(self.violations) >= 25:
            self.violations.append({"sig": sig, "replay": None})
            return
        os.makedirs(REPLAYS, exist_ok=True)
        doc = dict(replay_doc, property=self.prop, tier=self.tier, seed=self.seed, signature=sig)
        h = hashlib.sha1(json.dumps(doc, sort_keys=True, default=str).encode()).hexdigest()[:10]
        path = os.path.join(REPLAYS, "%s-%s.json" % (self.prop, h))
        with open(path, "w") as f:
            json.dump(doc, f, indent=1, default=str)
        self.violations.append({"sig": sig, "replay": path})

    def aborted(self, reason):
        """The run stopped early (tool trouble AFTER real-code deviations were recorded): the deviations
        stand.  Returns 1 after printing them, or None when there is nothing to report."""
        if not [v for v in self.violations if v["replay"]]:
            return None
        sigs = sorted({v["sig"] for v in self.violations})
        return self.finish("other", {"evaluations": len(self.violations), "distinct_nontrivial": len(sigs),
                                     "rule": "run aborted before completion (%s); the violations recorded before the abort are "
                                             "deviations of the real code and are reported, nothing else is claimed" % str(reason)[:300],
                                     "samples": sigs[:10]}, ["aborted run: coverage incomplete"])

    def finish(self, level, coverage, assumptions):
        wall = time.time() - self.t0
        for kid, (what, cnt) in sorted(self.known.items()):
            print("KNOWN-FINDING: property=%s %s [%s, %d scenario(s) this run]" % (self.prop, what, kid, cnt))
        seen = set()
        for v in self.violations:
            if v["replay"] and v["sig"] not in seen:
                print("VIOLATION property=%s replay=%s   (%s)" % (self.prop, v["replay"], v["sig"]))
                seen.add(v["sig"])
        for v in self.violations:
            if v["replay"] and v["sig"] in seen:
                continue
        cov = dict(coverage)
        cov.setdefault("known_finding_hits", {k: c for k, (_, c) in self.known.items()})
        if UNREPRODUCED:
            cov.setdefault("reports_not_reproduced_in_isolation", list(UNREPRODUCED))
        ev = {
            "property_id": self.prop, "tier": self.tier, "seed": int(self.seed), "level": level,
            "coverage": cov, "assumptions": assumptions, "wall_s": round(wall, 2),
            "violations": len(self.violations),
        }
        os.makedirs(EVIDENCE, exist_ok=True)
        with open(os.path.join(EVIDENCE, "%s.json" % self.prop), "w") as f:
            json.dump(ev, f, indent=1, default=str)
        log("%s tier=%s seed=%s: %d violation(s), %d known-finding kind(s), %.1fs" %
            (self.prop, self.tier, self.seed, len(self.violations), len(self.known), wall))
        return 1 if self.violations else 0


def lines_at(path, wanted):
    """One pass over a file -> {index: line} for the wanted line indices."""
    out = {}
    wanted = set(wanted)
    if not wanted:
        return out
    with open(path) as f:
        for i, line in enumerate(f):
            if i in wanted:
                out[i] = line.rstrip("\n")
                if len(out) == len(wanted):
                    break
    return out


def absorb_replay(verdict, outcome, engine, scenfile, crash_sig=None, extra=None):
    """Turns a ReplayOutcome into violations (failures, crashes, timeouts).  Harness errors
    make the run inconclusive."""
    if outcome.errors and not (outcome.failures or outcome.crashes or outcome.timeouts):
        raise Inconclusive("harness errors: %s" % outcome.errors[:3])
    # the scenario text is fetched in ONE pass, and only for the first occurrences of every signature (a replay
    # file is written for the first 25 violations of a run; thousands of failures need not be read back)
    per_sig, need = {}, set()
    for idx, sig, detail in outcome.failures:
        c = per_sig.get(sig, 0)
        per_sig[sig] = c + 1
        if c < 30:
            need.add(idx)
    need.update(idx for idx, _ in outcome.crashes[:60])
    need.update(outcome.timeouts[:60])
    lines = lines_at(scenfile, need)

    def scenario(idx):
        ln = lines.get(idx)
        return json.loads(ln) if ln else {"index": idx, "note": "scenario text not read back (many failures of this kind)"}
    for idx, sig, detail in outcome.failures:
        verdict.violation(sig, dict(engine=engine, scenario=scenario(idx), detail=detail, **(extra or {})))
    for idx, text in outcome.crashes:
        sc = scenario(idx)
        sig = crash_sig(sc, text) if crash_sig else "%s/crash" % engine
        verdict.violation(sig, dict(engine=engine, scenario=sc, detail={"crashed": True, "stderr": text[-1500:]},
                                    **(extra or {})))
    for idx in outcome.timeouts:
        sc = scenario(idx)
        verdict.violation("%s/timeout" % engine, dict(engine=engine, scenario=sc, detail={"timeout": True},
                                                       **(extra or {})))
    if outcome.errors:
        # deviations of the real code found so far stand (see bin/check: an inconclusive run that has
        # already recorded violations reports them); without any, the run is inconclusive
        raise Inconclusive("harness errors: %s" % outcome.errors[:3])


def samples_from(path, k=3):
    out = []
    try:
        with open(path) as f:
            lines = f.readlines()
        if not lines:
            return out
        step = max(1, len(lines) // k)
        for i in range(0, len(lines), step):
            try:
                out.append(json.loads(lines[i]))
            except Exception:
                pass
            if len(out) >= k:
                break
    except FileNotFoundError:
        pass
    return out
