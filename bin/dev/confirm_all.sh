#!/bin/sh
# usage: confirm_all.sh C13 C12 ...   (sequentially; results appended to /tmp/confirm.log)
for P in "$@"; do
  for K in 1 2 3; do
    D=/tmp/mut-$P/_out/$K
    [ -f $D/patch.diff ] || continue
    echo "=== $P-$K $(date +%H:%M:%S)" >> /tmp/confirm.log
    python3 /verif/bin/dev/confirm_mutant.py $P $D $P-$K 2>&1 | python3 -c "
import sys,json
t=sys.stdin.read()
try:
    d=json.loads(t); print(d['name'],'confirmed',d['confirmed'],'clean',d.get('demo_clean_rc'),'patched',d.get('demo_patched_rc'),'suite',d.get('suite_green'),'detected_by',d.get('detected_by'), [v for c in d['checks'].values() for v in c['violations']][:3], d.get('suite_failures','')[:300])
except Exception as e: print('PARSE-FAIL', t[-800:])" >> /tmp/confirm.log
  done
done
echo "=== done $* $(date +%H:%M:%S)" >> /tmp/confirm.log
