#!/usr/bin/env python3
"""Re-runs our quick checks against seeded changes (default: those no check detected when they were confirmed)
on the CURRENT /verif and /repo, and updates seeded/<name>/meta.json (fields our_checks / detected_by / rechecked).

usage: recheck_seeded.py [--all] [name ...] [--checks C01,C03]"""
import json, os, subprocess, sys, time
V = os.path.dirname(os.path.dirname(os.path.dirname(os.path.abspath(__file__))))
args = [a for a in sys.argv[1:] if not a.startswith("--")]
extra = None
for i, a in enumerate(sys.argv):
    if a == "--checks":
        extra = sys.argv[i + 1].split(",")
        args = [x for x in args if x != sys.argv[i + 1]]
allm = "--all" in sys.argv
env = dict(os.environ, GOFLAGS="-mod=mod", GOPROXY="off", GOSUMDB="off", GOTOOLCHAIN="local")
names = args or sorted(os.listdir(os.path.join(V, "seeded")))
for name in names:
    d = os.path.join(V, "seeded", name)
    mp = os.path.join(d, "meta.json")
    if not os.path.exists(mp):
        continue
    m = json.load(open(mp))
    if not args and not allm and m.get("detected_by"):
        continue
    wt = "/tmp/recheck-" + name
    subprocess.run("git -C /repo worktree remove --force %s; rm -rf %s; git -C /repo worktree prune" % (wt, wt), shell=True, capture_output=True)
    subprocess.run("git -C /repo worktree add --detach %s HEAD" % wt, shell=True, capture_output=True)
    try:
        p = subprocess.run("git apply %s" % os.path.join(d, "patch.diff"), shell=True, cwd=wt, capture_output=True)
        if p.returncode != 0:
            m["rechecked"] = {"at": time.strftime("%Y-%m-%d %H:%M"), "note": "the patch no longer applies to the repaired tree (the code it changes was rewritten by a fix: commit)"}
            json.dump(m, open(mp, "w"), indent=1)
            print(name, "patch does not apply")
            continue
        b = subprocess.run("go build ./...", shell=True, cwd=wt, env=env, capture_output=True)
        if b.returncode != 0:
            m["rechecked"] = {"at": time.strftime("%Y-%m-%d %H:%M"), "note": "the patched tree no longer builds"}
            json.dump(m, open(mp, "w"), indent=1)
            print(name, "does not build")
            continue
        checks = extra or list(m.get("our_checks", {}).keys()) or [m["property"]]
        res = {}
        for c in checks:
            t = time.time()
            p = subprocess.run("VERIF_REPO=%s python3 %s/bin/check %s --tier quick" % (wt, V, c), shell=True, capture_output=True, cwd=V, env=env, timeout=3600)
            viol = [l for l in p.stdout.decode("utf-8", "replace").splitlines() if l.startswith("VIOLATION")]
            res[c] = {"exit": p.returncode, "violations": viol[:6], "wall_s": round(time.time() - t)}
        m.setdefault("first_run", {"our_checks": m.get("our_checks"), "detected_by": m.get("detected_by")})
        m["our_checks"] = res
        m["detected_by"] = [c for c, r in res.items() if r["exit"] == 1]
        m["rechecked"] = {"at": time.strftime("%Y-%m-%d %H:%M"), "note": "re-run after the checks were strengthened"}
        json.dump(m, open(mp, "w"), indent=1)
        print(name, "detected_by", m["detected_by"])
    finally:
        subprocess.run("git -C /repo worktree remove --force %s; rm -rf %s; git -C /repo worktree prune" % (wt, wt), shell=True, capture_output=True)
