#!/usr/bin/env python3
"""Driver of engine `remotecfg` outside the cNN.py checks (development, binding demonstration):

    [VERIF_REPO=/tmp/wt-rcfg] python3 bin/dev/remotecfg_demo.py [--tier quick|thorough] [--seed N]
                                                                 [--keep DIR] [--props C15,C10]

Runs remotecfg_common.run inside a vlib.Verdict per owning property, the way bin/props/c15.py runs its
own engine, and exits 1 iff a VIOLATION line was printed (0: clean or known findings only, 2: tool
trouble).  Evidence and replay files go to --keep DIR (default: scratch), NOT to /verif/evidence or
/verif/replays, so that running it never disturbs the registered checks."""
import argparse, os, sys, traceback
sys.path.insert(0, os.path.join(os.path.dirname(os.path.abspath(__file__)), ".."))
import vlib
from props import remotecfg_common


def main():
    ap = argparse.ArgumentParser()
    ap.add_argument("--tier", default=os.environ.get("VERIF_TIER", "quick"), choices=["quick", "thorough"])
    ap.add_argument("--seed", type=int, default=int(os.environ.get("VERIF_SEED", "1") or 1))
    ap.add_argument("--keep", default=None)
    ap.add_argument("--props", default="C15,C10")
    a = ap.parse_args()
    keep = a.keep or vlib.sub("demo")
    vlib.EVIDENCE = os.path.join(keep, "evidence")
    vlib.REPLAYS = os.path.join(keep, "replays")
    rc = 0
    try:
        for prop in a.props.split(","):
            v = vlib.Verdict(prop, a.tier, a.seed)
            cov, scen = remotecfg_common.run(v, prop, a.tier, a.seed)
            cov["samples"] = vlib.samples_from(scen, 1)
            rc |= v.finish("model_checking", cov, [
                "the command line runs in-process in a worker of the harness binary; exit status 1 is a refusal",
                "names, branches, values and patterns are the alphabets of RemoteCfgGen.tla (cover) and record.go (traces)",
            ])
            vlib.log("%s: %s" % (prop, {k: cov[k] for k in ("states", "transitions", "scenarios_replayed", "passed",
                                                              "traces_validated_against_impl", "trace_events",
                                                              "owned_deviations", "system_growth_notes")}))
    except vlib.Inconclusive as e:
        print("INCONCLUSIVE remotecfg: %s" % e, file=sys.stderr)
        return 2
    except Exception:
        traceback.print_exc()
        return 2
    return rc


if __name__ == "__main__":
    sys.exit(main())
