#!/usr/bin/env python3
"""Prints the markdown table of /verif/seeded/*/meta.json (which of our checks detect which confirmed seeded change)."""
import json, os, sys
V = os.path.dirname(os.path.dirname(os.path.dirname(os.path.abspath(__file__))))
rows = []
for name in sorted(os.listdir(os.path.join(V, "seeded"))):
    mp = os.path.join(V, "seeded", name, "meta.json")
    if not os.path.exists(mp):
        continue
    m = json.load(open(mp))
    det = m.get("detected_by") or []
    sigs = []
    for c in det:
        for l in m["our_checks"][c]["violations"][:2]:
            if "(" in l:
                sigs.append(l[l.rindex("(") + 1:].rstrip(") "))
    what = (m.get("breaks") or "").replace("|", "/").replace("\n", " ")
    if len(what) > 150:
        what = what[:147] + "..."
    files = ", ".join(m.get("files") or [])
    rows.append("| %s | %s | %s | %s | %s |" % (name, files, what, ", ".join(det) if det else "**missed**",
                                          "; ".join(sorted(set(sigs))[:2])))
print("| seeded change | file(s) | what it breaks | detected by (quick tier) | first signatures |")
print("|---|---|---|---|---|")
print("\n".join(rows))
