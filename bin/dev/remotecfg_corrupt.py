#!/usr/bin/env python3
"""Binding demonstration (a) of engine `remotecfg`: corrupt ONE expected field of ONE scenario line
and ONE field of ONE recorded trace event; exactly those must be reported / rejected.

    python3 bin/dev/remotecfg_corrupt.py [--line K] [--event M]

Prints the scenarios whose verdict differs between the untouched and the corrupted scenario file, and
the rejections of the untouched and of the corrupted trace file."""
import argparse, json, os, sys
sys.path.insert(0, os.path.join(os.path.dirname(os.path.abspath(__file__)), ".."))
import vlib
from props import remotecfg_common as rc


def failing(scen):
    out = vlib.replay(rc.ENGINE, scen, timeout=60)
    if out.errors:
        raise vlib.Inconclusive(str(out.errors[:2]))
    return {idx: (d or {}).get("sigs") or [sig] for idx, sig, d in out.failures}


def main():
    ap = argparse.ArgumentParser()
    ap.add_argument("--line", type=int, default=600)
    ap.add_argument("--event", type=int, default=45)
    ap.add_argument("--what", default="ok", choices=["ok", "obs"], help="which field of the trace event to corrupt")
    a = ap.parse_args()
    vlib.build_harness()
    scen = os.path.join(vlib.sub("scn"), "base.ndjson")
    res = vlib.run_tlc("RemoteCfgGen", rc._cfg("RemoteCfgGen.beh.cfg", 1, "FALSE", "beh"), scn_out=scen, timeout=600, heap="2g")
    vlib.require_ok(res, "RemoteCfgGen")
    base = failing(scen)
    lines = open(scen).readlines()
    k = a.line
    while k in base:          # corrupt a scenario the real code passes
        k += 1
    doc = json.loads(lines[k])
    step = json.loads(doc["steps"][-1])
    alt = step[2][0]
    state = alt[1]
    if state["refs"]:
        old = list(state["refs"][0])
        state["refs"][0][1] = old[1] + 1
        what = "expected value of ref %s: %s -> %s" % (old[0], old[1], old[1] + 1)
    else:
        state["b"].append(["ghost", "origin", ""])
        what = "expected an upstream setting branch.ghost.remote = origin"
    doc["steps"][-1] = json.dumps(step)
    lines[k] = json.dumps(doc) + "\n"
    bad = os.path.join(vlib.sub("scn"), "corrupt.ndjson")
    open(bad, "w").writelines(lines)
    after = failing(bad)
    print("SCENARIOS: %d lines; corrupted line %d (operation %s): %s" % (len(lines), k, step[0], what))
    diff = sorted(set(after) ^ set(base)) + sorted(i for i in set(after) & set(base) if after[i] != base[i])
    for i in diff:
        print("  verdict changed at line %d: %s -> %s" % (i, base.get(i, "pass"), after.get(i, "pass")))
    print("  => %s" % ("exactly the corrupted line is reported" if diff == [k] else "UNEXPECTED"))

    trace = os.path.join(vlib.sub("traces"), "base-trace.ndjson")
    p = vlib.run_record(rc.ENGINE, ["--seed", "7", "--n", "4", "--len", "30", "--out", trace])
    if p.returncode != 0:
        raise vlib.Inconclusive(p.stderr[-1000:])
    nt, ne, devs, rej = rc.validate(trace, "base")
    print("TRACES: %d traces, %d events; untouched: %d rejection(s), %d named deviation line(s)" % (nt, ne, len(rej), len(devs)))
    tl = open(trace).readlines()
    m = a.event
    ev = json.loads(tl[m - 1])
    while ev["op"][0] == "reset":
        m += 1
        ev = json.loads(tl[m - 1])
    if a.what == "obs":
        while not ev["obs"]["r"]:
            m += 1
            ev = json.loads(tl[m - 1])
        old = ev["obs"]["r"][0][1]
        ev["obs"]["r"][0][1] = old + "x"
        shown = "observed url of remote %s: %s -> %s" % (ev["obs"]["r"][0][0], old, old + "x")
    else:
        old = ev["ok"]
        ev["ok"] = "F" if old == "T" else "T"
        shown = "answer ok %s -> %s" % (old, ev["ok"])
    tl[m - 1] = json.dumps(ev, separators=(",", ":")) + "\n"
    badt = os.path.join(vlib.sub("traces"), "corrupt-trace.ndjson")
    open(badt, "w").writelines(tl)
    nt, ne, devs2, rej2 = rc.validate(badt, "bad")
    print("  corrupted event at file line %d (operation %s): %s" % (m, ev["op"][:3], shown))
    for r in rej2:
        print("  rejected: trace starting at file line %d, line %d of it (= file line %d), clause %s" %
              (r["trace_first_line"], r["line_in_trace"], r["trace_first_line"] + r["line_in_trace"] - 1, r["sig"]))
    ok = len(rej) == 0 and len(rej2) == 1 and rej2[0]["trace_first_line"] + rej2[0]["line_in_trace"] - 1 == m
    print("  => %s" % ("exactly the corrupted event is rejected; the other traces are accepted" if ok else "UNEXPECTED"))
    return 0


if __name__ == "__main__":
    try:
        sys.exit(main())
    except vlib.Inconclusive as e:
        print("INCONCLUSIVE:", e, file=sys.stderr)
        sys.exit(2)
