#!/bin/sh
# usage: try_mutant.sh NAME PATCH CHECK...   runs quick checks of the working /verif against a scratch worktree with PATCH applied
N=$1; P=$2; shift 2
WT=/tmp/try-$N
git -C /repo worktree remove --force $WT >/dev/null 2>&1; rm -rf $WT
git -C /repo worktree add --detach $WT HEAD >/dev/null 2>&1 || exit 2
(cd $WT && git apply $P) || { echo "patch does not apply"; git -C /repo worktree remove --force $WT; exit 2; }
for C in "$@"; do
  VERIF_REPO=$WT VERIF_EVIDENCE_DIR=/tmp/try-ev-$N python3 /verif/bin/check $C --tier quick > /tmp/try-$N-$C.log 2>&1
  echo "$N $C exit=$? $(grep -c '^VIOLATION' /tmp/try-$N-$C.log) violation lines; $(grep '^VIOLATION' /tmp/try-$N-$C.log | sed 's/.*(\(.*\))/\1/' | sort -u | head -4 | tr '\n' ' ')"
done
git -C /repo worktree remove --force $WT >/dev/null 2>&1; rm -rf $WT /tmp/try-ev-$N
