#!/bin/sh
# usage: confirm_round4.sh C13 C12 ...   (sequentially; results appended to /tmp/confirm5.log)
for P in "$@"; do
  # the highest number in use (NOT the count: earlier rounds left gaps, and counting wrote over X-9 once)
  N=$(ls -d /verif/seeded/$P-* 2>/dev/null | sed 's/.*-//' | sort -n | tail -1)
  N=${N:-0}
  for K in 1 2; do
    D=/tmp/mut5-$P/_out/$K
    [ -f $D/patch.diff ] || continue
    N=$((N+1))
    echo "=== $P-$N $(date +%H:%M:%S)" >> /tmp/confirm5.log
    case $P in
      C01) CHK=C01,C03,C16 ;;
      C02) CHK=C02,C03,C01 ;;
      C03) CHK=C03,C13,C07 ;;
      C05) CHK=C05,C10 ;;
      C06) CHK=C06,C01,C03,C07 ;;
      C07) CHK=C07,C08,C06 ;;
      C10) CHK=C10,C09,C15 ;;
      C12) CHK=C12,C13 ;;
      C13) CHK=C13,C07,C09 ;;
      C14) CHK=C14,C15 ;;
      C15) CHK=C15,C10,C14 ;;
      C16) CHK=C16,C03,C05 ;;
      C19) CHK=C19,C05 ;;
      C08) CHK=C08,C09 ;;
      C09) CHK=C09,C08,C07 ;;
      C17) CHK=C17,C18,C06 ;;
      C18) CHK=C18,C17 ;;
      *) CHK=$P ;;
    esac
    python3 /verif/bin/dev/confirm_mutant.py $P $D $P-$N $CHK 2>&1 | python3 -c "
import sys,json
t=sys.stdin.read()
try:
    d=json.loads(t[t.index('{'):]); print(d['name'],'confirmed',d['confirmed'],'clean',d.get('demo_clean_rc'),'patched',d.get('demo_patched_rc'),'suite',d.get('suite_green'),'detected_by',d.get('detected_by'), [v for c in d['checks'].values() for v in c['violations']][:3], d.get('suite_failures','')[:300])
except Exception as e: print('PARSE-FAIL', t[-800:])" >> /tmp/confirm5.log
  done
done
echo "=== done $* $(date +%H:%M:%S)" >> /tmp/confirm5.log
