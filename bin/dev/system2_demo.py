#!/usr/bin/env python3
"""Driver of the system2 engine outside bin/check: calls system2_common.run inside a vlib.Verdict the way
bin/props/c10.py calls system_common.run, for the binding demonstration and for trials.

  python3 bin/dev/system2_demo.py C10 [quick|thorough] [seed]      (VERIF_REPO=/tmp/wt-... for a mutated tree)
  options: --corrupt N:STEP:FIELD   corrupt one expected observation field of behaviour N before the replay
           --all                    absorb the failures of every owner (not only the given property)
           --keep DIR               copy the replay files written by the run into DIR
           --replay FILE            re-run the behaviour of one replay file (system2_common.replay)

Replay files and evidence go to a scratch directory (never to /verif/replays or /verif/evidence, which belong
to the registered checks).  Exit code: 1 violation, 0 clean / known finding only, 2 inconclusive."""
import json, os, sys
HERE = os.path.dirname(os.path.abspath(__file__))
sys.path.insert(0, os.path.dirname(HERE))
import vlib
from props import system2_common as s2


def opt(name):
    return sys.argv[sys.argv.index(name) + 1] if name in sys.argv else None


def main():
    skip = {opt(n) for n in ("--corrupt", "--keep", "--replay")}
    args = [a for a in sys.argv[1:] if not a.startswith("--") and a not in skip]
    prop = args[0] if args else "C10"
    tier = args[1] if len(args) > 1 else "quick"
    seed = int(args[2]) if len(args) > 2 else int(os.environ.get("VERIF_SEED", "1"))
    out = vlib.sub("demo-out")
    vlib.REPLAYS, vlib.EVIDENCE = os.path.join(out, "replays"), os.path.join(out, "evidence")
    corrupt = None
    for i, a in enumerate(sys.argv):
        if a == "--corrupt":
            corrupt = sys.argv[i + 1].split(":")
    if "--all" in sys.argv:
        s2.owner_of = lambda sig: prop
    if corrupt:
        n, step, field = int(corrupt[0]), int(corrupt[1]), corrupt[2]
        real_replay = vlib.replay

        def corrupted(engine, infile, **kw):
            lines = open(infile).readlines()
            d = json.loads(lines[n])
            o = d["h"][step]["obs"]
            before = json.dumps(o[field])
            if field in ("lh", "rh", "ll", "rl"):
                o[field][0][1] += 1
            elif field in ("lp", "rp", "lq", "rq"):
                o[field] = o[field][:-1]
            else:
                raise SystemExit("cannot corrupt field " + field)
            print("CORRUPTED behaviour %d step %d (%s) field %s: %s -> %s" % (n, step, d["h"][step]["op"], field, before, json.dumps(o[field])))
            lines[n] = json.dumps(d) + "\n"
            open(infile, "w").writelines(lines)
            return real_replay(engine, infile, **kw)
        vlib.replay = corrupted
    if opt("--replay"):
        try:
            rc = s2.replay(prop, opt("--replay"), json.load(open(opt("--replay"))))
        except vlib.Inconclusive as e:
            print("INCONCLUSIVE:", e)
            rc = 2
        print("exit", rc)
        sys.exit(rc)
    try:
        v = vlib.Verdict(prop, tier, seed)
        if "--all" in sys.argv:
            v.known_defs = [k for k in vlib.load_known() if k.get("status") == "open"]
        cov, scen = s2.run(v, prop, tier, seed)
        if opt("--keep"):
            import shutil
            os.makedirs(opt("--keep"), exist_ok=True)
            for viol in v.violations:
                if viol["replay"]:
                    shutil.copy(viol["replay"], opt("--keep"))
        lines = [json.loads(l) for l in open(scen)]
        for viol in v.violations:
            if viol["replay"]:
                doc = json.load(open(viol["replay"]))
                det = doc.get("detail") or {}
                idx = [i for i, l in enumerate(lines) if l == doc.get("scenario")]
                print("  -> %s: behaviour %s step %s (scale %s): %s" % (viol["sig"], idx[0] if idx else "?", det.get("step"), det.get("scale"),
                                                                      (det.get("command") or "").replace(vlib.scratch(), "")))
        print(json.dumps({k: cov[k] for k in ("behaviours", "passed", "owned_failures", "failures_owned_elsewhere",
                                              "ended_on_another_admissible_merge_base", "exhaustive")}))
        rc = v.finish("model_checking", cov, ["driver run, not a registered check"])
    except vlib.Inconclusive as e:
        print("INCONCLUSIVE:", e)
        rc = 2
    print("exit", rc)
    sys.exit(rc)


if __name__ == "__main__":
    main()
