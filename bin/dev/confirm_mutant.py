#!/usr/bin/env python3
"""Confirms one seeded change produced by a bug-seeding sub-agent and runs our check against it.

usage: confirm_mutant.py <property> <out-dir-of-agent>/<k> <name>

In a fresh scratch worktree of /repo HEAD (removed afterwards):
  1. the demonstration passes on the clean tree;
  2. the patch applies, `go build ./...` succeeds;
  3. the demonstration fails with the patch;
  4. the repository's own test suite still passes with the patch (-vet=off, like the pinned baseline);
  5. our quick check of the property runs against the patched tree (VERIF_REPO) -> detected iff exit 1.
Writes /verif/seeded/<name>/{patch.diff, demo*, meta.json} when 1-4 hold."""
import json, os, shutil, subprocess, sys, time

prop, src, name = sys.argv[1], sys.argv[2], sys.argv[3]
checks = sys.argv[4].split(",") if len(sys.argv) > 4 else [prop]
wt = "/tmp/confirm-" + name
env = dict(os.environ, GOFLAGS="-mod=mod", GOPROXY="off", GOSUMDB="off", GOTOOLCHAIN="local")


def sh(cmd, cwd=None, timeout=1500):
    p = subprocess.run(cmd, shell=True, cwd=cwd, env=env, capture_output=True, timeout=timeout)
    return p.returncode, (p.stdout.decode("utf-8", "replace") + p.stderr.decode("utf-8", "replace"))[-3000:]


def demo_failed(rc, out):
    """The agents' commands often end with `; rm demo_test.go`, so the exit code is not the test's."""
    bad = any(x in out for x in ("--- FAIL", "FAIL\t", "\nFAIL", "panic:", "fatal error:", "DEMO-FAIL", "exit status"))
    return rc != 0 or bad


meta = json.load(open(os.path.join(src, "meta.json")))
res = {"property": prop, "name": name, "agent_meta": meta}
subprocess.run("git -C /repo worktree remove --force %s; rm -rf %s; git -C /repo worktree prune" % (wt, wt), shell=True, capture_output=True)
rc, out = sh("git -C /repo worktree add --detach %s HEAD" % wt)
try:
    demo = meta.get("demo", {})
    copy_to = (demo.get("copy_to", "standalone") or "standalone").split()[0].rstrip(",;")
    demos = [f for f in os.listdir(src) if f.startswith("demo")]
    run = demo.get("run", "")
    def place():
        # the agent's commands refer to its _out directory relative to the worktree root
        shutil.copytree(os.path.dirname(os.path.abspath(src)), os.path.join(wt, "_out"), dirs_exist_ok=True)
        # ... or say only which package the demonstration has to be copied into
        if copy_to and copy_to != "standalone" and os.path.isdir(os.path.join(wt, copy_to)) and "cp " not in run:
            for f in demos:
                if os.path.isfile(os.path.join(src, f)) and f.endswith(".go"):
                    shutil.copy(os.path.join(src, f), os.path.join(wt, copy_to, f))
    place()
    run = run.replace("/tmp/mut5-%s" % prop, wt).replace("/tmp/mut4-%s" % prop, wt).replace("/tmp/mut3-%s" % prop, wt).replace("/tmp/mut2-%s" % prop, wt).replace("/tmp/mut-%s" % prop, wt)
    res["demo_cmd"] = run
    rc0, out0 = sh(run, cwd=wt, timeout=900)
    rc0 = 1 if demo_failed(rc0, out0) else 0
    res["demo_clean_rc"] = rc0
    res["demo_clean_tail"] = out0[-300:]
    rc, out = sh("git apply %s" % os.path.join(src, "patch.diff"), cwd=wt)
    res["apply_rc"] = rc
    rcb, outb = sh("go build ./...", cwd=wt)
    res["build_rc"] = rcb
    rc1, out1 = sh(run, cwd=wt, timeout=900)
    rc1 = 1 if demo_failed(rc1, out1) else 0
    res["demo_patched_rc"] = rc1
    res["demo_patched_tail"] = out1[-600:]
    # suite (without the demo files: everything untracked goes, the patch stays)
    sh("git clean -fdq", cwd=wt)
    t = time.time()
    rcs, outs = sh("go test -vet=off -count=1 -timeout 25m ./... 2>&1 | grep -v 'no test files' | grep -v '^ok' | tail -20", cwd=wt, timeout=2400)
    res["suite_failures"] = outs.strip()
    res["suite_green"] = outs.strip() == ""
    res["suite_s"] = round(time.time() - t)
    res["confirmed"] = bool(rc0 == 0 and rc == 0 and rcb == 0 and rc1 != 0 and res["suite_green"])
    res["checks"] = {}
    for c in checks:
        t = time.time()
        snap = os.environ.get("VERIF_SNAP", "/verif")   # a frozen copy of /verif while /verif itself is being edited
        p = subprocess.run("VERIF_REPO=%s python3 %s/bin/check %s --tier quick" % (wt, snap, c), shell=True, capture_output=True, timeout=3000,
                           cwd=snap, env=dict(env, VERIF_SCRATCH_BASE="/tmp"))
        viol = [l for l in p.stdout.decode("utf-8", "replace").splitlines() if l.startswith("VIOLATION")]
        res["checks"][c] = {"exit": p.returncode, "violations": viol[:6], "wall_s": round(time.time() - t)}
    res["detected_by"] = [c for c, r in res["checks"].items() if r["exit"] == 1]
finally:
    subprocess.run("git -C /repo worktree remove --force %s; rm -rf %s; git -C /repo worktree prune" % (wt, wt), shell=True, capture_output=True)
if res.get("confirmed"):
    dst = os.path.join("/verif/seeded", name)
    os.makedirs(dst, exist_ok=True)
    shutil.copy(os.path.join(src, "patch.diff"), dst)
    for f in os.listdir(src):
        if f.startswith("demo"):
            p = os.path.join(src, f)
            shutil.copytree(p, os.path.join(dst, f), dirs_exist_ok=True) if os.path.isdir(p) else shutil.copy(p, dst)
    json.dump({"property": prop, "breaks": meta.get("breaks") or meta.get("summary"), "needs_to_manifest": meta.get("needs_to_manifest"),
               "files": meta.get("files"), "demo": meta.get("demo"),
               "confirmed": {"demo_passes_on_clean_tree": True, "demo_fails_with_patch": True, "builds": True,
                             "repository_suite_green_with_patch": True, "suite_seconds": res["suite_s"]},
               "our_checks": res["checks"], "detected_by": res["detected_by"]}, open(os.path.join(dst, "meta.json"), "w"), indent=1)
json.dump(res, open("/tmp/confirm-%s.full.json" % name, "w"), indent=1)
print(json.dumps({k: res[k] for k in res if k not in ("agent_meta",)}, indent=1)[:2500])
