"""C16 - concurrent pipelines give the sequential result under every schedule.

(A) IngestPool.tla: TLC explores EVERY interleaving of producer, workers and caller of the
    inserter's worker pool (3 workers x 4 blocks x channel capacity 2; with one failing store write
    at several places) and checks MutualExclusion, NoLoss (= the one-worker table), ErrorReported,
    NoSendAfterClose and, under weak fairness, that the caller always returns.  The same model with
    the mutex removed (read and write of the shared state as separate steps) must VIOLATE NoLoss:
    a self-test that the model can see the defect at all.
(C) real multi-worker ingests (1..16 workers, 1..60/400 blocks, GOMAXPROCS 1/2/4/16, seeded sleeps
    inside the hooks) are recorded through the verif hooks of pkg/ingest and validated by TLC against
    TracePool.tla: no overlapping critical sections, no block taken/published twice or lost, row count,
    table identical to the one-worker table; with an injected store failure the call must return an
    error (a hang is caught by the watchdog).
    The diff (and merge, when its engine is present) scenario sets are replayed with seeded yields at
    every channel send (VERIF_YIELD) and other GOMAXPROCS and must give the specification's result.
    thorough: the same pool runs under the race detector; a report is a violation."""
import json, os, random, re
import vlib

PROP = "C16"


def pool_cases(seed, n, max_blocks, path):
    rng = random.Random(seed)
    with open(path, "w") as f:
        for i in range(n):
            fault = i % 4 == 3
            blocks = rng.choice([1, 2, 3, 5, 9, 17, 33, max_blocks]) if i % 3 else rng.randint(1, max_blocks)
            sc = {"seed": seed, "idx": i, "blocks": blocks, "workers": rng.choice([0, 1, 2, 2, 3, 4, 6, 8, 12, 16]),
                  "procs": rng.choice([1, 2, 4, 16]), "yieldpm": rng.choice([0, 100, 300, 600]),
                  "faultat": rng.randint(1, 2 * blocks + 3) if fault else 0}
            f.write(json.dumps(sc) + "\n")


def model_checks():
    """(A).  Returns (states, transitions, detail)."""
    detail = {}
    states = trans = 0
    for cfg in ["ok", "faultW1Blk", "faultW2Idx", "faultAllBlk", "faultBlock2"]:
        res = vlib.run_tlc("IngestPool", "IngestPool.%s.cfg" % cfg, timeout=1200, heap="4g")
        vlib.require_ok(res, "IngestPool/" + cfg)
        detail[cfg] = {"generated": res.generated, "distinct": res.distinct}
        states += res.distinct
        trans += res.generated
    for cfg in ["F0", "FDiffer1", "FResolve", "FSave"]:
        res = vlib.run_tlc("Pipes", "Pipes.%s.cfg" % cfg, timeout=600, heap="2g")
        vlib.require_ok(res, "Pipes/" + cfg)
        detail["pipes." + cfg] = {"generated": res.generated, "distinct": res.distinct}
        states += res.distinct
        trans += res.generated
    res = vlib.run_tlc("Pipes", "Pipes.FSaveAndResolve.cfg", timeout=600, heap="2g")
    detail["pipes.double_fault"] = ("model-level observation: a failing save in the collector followed by a failing resolve in "
                                    "mergeTables sends on the error channel after Error() closed it (%s); two simultaneous failures "
                                    "are outside the statement and this is not a verdict" %
                                    ("NoSendOnClosed violated" if "NoSendOnClosed" in res.violated else "not reproduced"))
    res = vlib.run_tlc("IngestPool", "IngestPool.nomutex.cfg", timeout=600, heap="2g")
    if res.ok or "NoLoss" not in res.violated:
        raise vlib.Inconclusive("self-test: the pool model without the mutex must violate NoLoss:\n" + res.output_tail)
    detail["nomutex_selftest"] = "NoLoss violated as expected (%d states)" % res.distinct
    return states, trans, detail


def split_pool(side):
    p = os.path.join(vlib.sub("traces"), "pool.ndjson")
    n = 0
    with open(p, "w") as out:
        if os.path.exists(side):
            for line in open(side):
                line = line.strip()
                if not line:
                    continue
                doc = json.loads(line)
                if doc.get("kind") == "pool":
                    for d in doc["docs"]:
                        out.write(json.dumps(d) + "\n")
                    n += 1
    return p, n


def final_of(trace_lines):
    for ln in reversed(trace_lines):
        d = json.loads(ln)
        if d.get("op") == "final":
            return d
    return {}


def run(tier, seed):
    v = vlib.Verdict(PROP, tier, seed)
    vlib.build_harness()
    states, trans, detail = model_checks()
    # (C) pool
    cases = os.path.join(vlib.sub("scn"), "pool.cases.ndjson")
    n, mb = (160, 120) if tier == "quick" else (800, 400)
    pool_cases(seed, n, mb, cases)
    side = os.path.join(vlib.sub("traces"), "pool.side")
    out = vlib.replay("pool", cases, side_path=side, timeout=90, nshards=min(8, vlib.NCPU))
    vlib.absorb_replay(v, out, "pool", cases, crash_sig=lambda sc, t: "pool/crash")
    trace, ntr = split_pool(side)
    n_traces, n_events, rejections, last = vlib.validate_traces("TracePool", "TracePool.cfg", trace, max_rejections=10)
    for r in rejections:
        fin = final_of(r["trace"])
        sc = {k: fin.get(k) for k in ("seed", "idx", "blocks", "workers", "procs", "yieldpm", "faultat")}
        v.violation("pool/%s" % (r["clause"] or "rejected"),
                    dict(engine="pool", scenario=sc, clause=r["clause"], rejected_event=json.loads(r["event"]),
                         line_in_trace=r["line_in_trace"]))
    # diff (and merge) under yields
    ycov = {}
    try:
        from props import c04
        dscen = os.path.join(vlib.sub("scn"), "diff-yield.ndjson")
        c04.generate("quick", dscen)
        if tier == "quick":
            # a slice is enough for the quick tier: every 4th pair
            sl = dscen + ".slice"
            with open(dscen) as f, open(sl, "w") as g:
                for i, line in enumerate(f):
                    if i % 8 == seed % 8:
                        g.write(line)
            dscen = sl
        for procs, ypm in (((2, 400),) if tier == "quick" else ((2, 400), (16, 150), (1, 300))):
            o = vlib.replay("diff", dscen, env={"VERIF_YIELD": str(ypm), "VERIF_SEED": str(seed), "GOMAXPROCS": str(procs)})
            vlib.absorb_replay(v, o, "diff", dscen, crash_sig=lambda sc, t: "diff-under-yield/crash",
                               extra={"yield_per_mille": ypm, "gomaxprocs": procs})
            ycov["diff procs=%d yield=%d" % (procs, ypm)] = {"pairs": o.total, "ok": o.passed}
        # `wrgl diff FILE1 FILE2 -n 8`: the command ingests both files into its in-memory store with its own worker
        # pool and diffs them; tables of up to 18 blocks, under yields; the DIFF file must list the specification's sets
        csl = dscen + ".cli"
        with open(dscen) as f, open(csl, "w") as g:
            lines = f.readlines()
            stepc = max(1, len(lines) // (40 if tier == "quick" else 400))
            g.writelines(lines[(seed % stepc)::stepc])
        o = vlib.replay("diffcli", csl, timeout=180, env={"CLIDIFF_FILES": "1", "CLIDIFF_MULT": "3", "VERIF_YIELD": "300",
                                                          "VERIF_SEED": str(seed), "GOMAXPROCS": "16"})
        vlib.absorb_replay(v, o, "diffcli", csl, crash_sig=lambda sc, t: "diff-cli-files/crash", extra={"files": True, "mult": 3})
        ycov["wrgl diff FILE FILE -n 8 under yields"] = {"pairs": o.total, "ok": o.passed}
    except ModuleNotFoundError:
        pass
    try:
        from props import merge_common
        ycov.update(merge_common.under_yields(v, tier, seed))
    except (ImportError, AttributeError):
        pass
    # injected read errors inside the diff and merge pipelines: every run must end, and a fault that fired is
    # reported to the caller (or did not matter)
    fcov = {}
    try:
        fscen = os.path.join(vlib.sub("scn"), "diff-fault.ndjson")
        with open(dscen) as f, open(fscen, "w") as g:
            for i, line in enumerate(f):
                if i % (6 if tier == "quick" else 2) == seed % 2:
                    g.write(line)
        o = vlib.replay("difffault", fscen, env={"VERIF_SEED": str(seed)}, timeout=40)
        vlib.absorb_replay(v, o, "difffault", fscen, crash_sig=lambda sc, t: "diff/fault/crash")
        fcov["diff"] = {"pairs": o.total, "ok": o.passed, "classes": o.classes}
        mscen = os.path.join(vlib.sub("scn"), "merge-yield.ndjson")
        if os.path.exists(mscen):
            mf = os.path.join(vlib.sub("scn"), "merge-fault.ndjson")
            with open(mscen) as f, open(mf, "w") as g:
                for i, line in enumerate(f):
                    if i % (10 if tier == "quick" else 1) == seed % (10 if tier == "quick" else 1):
                        g.write(line)
            o = vlib.replay("mergefault", mf, env={"VERIF_SEED": str(seed)}, timeout=60)
            vlib.absorb_replay(v, o, "mergefault", mf, crash_sig=lambda sc, t: "merge/fault/crash")
            fcov["merge"] = {"pairs": o.total, "ok": o.passed, "classes": o.classes}
        for k, c in fcov.items():
            if not any("fired=true" in cl for cl in c["classes"]):
                raise vlib.Inconclusive("no injected read error fired in the %s fault runs (vacuous)" % k)
    except NameError:
        pass
    # auxiliary: race detector on the pool runs
    race = None
    if tier == "thorough":
        rcases = os.path.join(vlib.sub("scn"), "pool.race.ndjson")
        pool_cases(seed + 1000, 48, 40, rcases)
        ro = vlib.replay("pool", rcases, race=True, timeout=300, nshards=4)
        race = {"runs": ro.total, "reports": 0}
        for idx, text in ro.crashes:
            if "DATA RACE" in text:
                race["reports"] += 1
                m = re.search(r"(pkg/[\w/]+\.go:\d+)", text)
                v.violation("pool/data-race/%s" % (m.group(1) if m else "?"),
                            dict(engine="pool", scenario=json.loads(vlib.read_line(rcases, idx)), detail=text[-3000:]))
            else:
                v.violation("pool/crash", dict(engine="pool", scenario=json.loads(vlib.read_line(rcases, idx)), detail=text[-2000:]))
    cov = {
        "states": states, "transitions": trans,
        "traces_validated_against_impl": n_traces - len(rejections),
        "trace_events": n_events,
        "evaluations": out.total + sum(x["pairs"] for x in ycov.values()),
        "distinct_nontrivial": sum(c for k, c in out.classes.items() if k not in ("w1", "-")),
        "rule": "pool: one recorded real ingest per case (workers x blocks x GOMAXPROCS x yield probability x fault point, "
                "seeded); non-trivial = more than one worker; diff/merge: scenario sets of C04/C05 replayed under seeded yields",
        "classes": out.classes,
        "model_configs": detail,
        "under_yields": ycov,
        "injected_read_errors": fcov,
        "race_detector": race,
        "samples": vlib.samples_from(cases, 4),
    }
    return v.finish("model_checking", cov, [
        "interleavings of the REAL runtime are sampled (widened by seeded sleeps inside the hooks and GOMAXPROCS); only the model's are exhaustive",
        "worker identities and channel contents are not logged: the trace specification checks the projection of the pool model's invariants",
        "memory-model races on variables without a hook are visible only to the race-detector runs of the thorough tier",
    ])


def replay(path):
    with open(path) as f:
        doc = json.load(f)
    eng = doc.get("engine", "pool")
    scen = os.path.join(vlib.sub("scn"), "one.ndjson")
    with open(scen, "w") as f:
        f.write(json.dumps(doc["scenario"]) + "\n")
    bad = False
    for attempt in range(10 if eng in ("pool", "diffcli") else 3):   # schedules are sampled: repeat
        side = os.path.join(vlib.sub("traces"), "one.side")
        env = {}
        if eng == "diff":
            env = {"VERIF_YIELD": str(doc.get("yield_per_mille", 300)), "GOMAXPROCS": str(doc.get("gomaxprocs", 2)), "VERIF_SEED": str(attempt)}
        if eng == "diffcli":
            env = {"CLIDIFF_FILES": "1", "CLIDIFF_MULT": str(doc.get("mult", 3)), "VERIF_YIELD": "300", "GOMAXPROCS": "16", "VERIF_SEED": str(attempt)}
        out = vlib.replay(eng, scen, nshards=1, side_path=side, timeout=180 if eng == "diffcli" else 90, env=env)
        if out.failures or out.crashes or out.timeouts:
            bad = True
            break
        if eng == "pool":
            trace, _ = split_pool(side)
            _, _, rej, _ = vlib.validate_traces("TracePool", "TracePool.cfg", trace)
            if rej:
                bad = True
                break
    if bad:
        print("VIOLATION property=%s replay=%s" % (PROP, path))
        return 1
    return 0
