"""C20 - the on-disk hash set answers membership exactly like a set.

(A) TLC explores the design's state graph (spec/HashSetGen.tla, path hidden by VIEW) and checks the
    invariants of spec/HashSet.tla: Sorted, FanoutConsistent, exact bucket search, answers/file within
    what the statement allows, flushed membership = added set, Reopen preserves every answer - for both
    readings of "a hash repeated inside the unflushed batch" (appended as coded / skipped);
(B) every operation sequence (Add x 6 hashes with first bytes 00,00,7F,7F,FF,FF, Flush, Reopen) of
    length D for batch sizes 1..3 is exported with the allowed Has answers per step and replayed on a
    real index.HashSet on a real file; thorough adds long random sequences (TLC -simulate);
(C) a seeded random driver runs the real set at larger scale (100..400 random hashes, many sharing the
    first bytes 00/ff, batch sizes 1..50, repeats, reopen); TraceHashSet.tla judges every recorded Has
    answer and every projected file (Sorted / FanoutConsistent / members) with TLC.  A sample of the
    (B) scenarios is also executed as traces so that TLC judges what the Go replayer judged.

Helper not in vlib: fast_tmp() puts the children's TMPDIR (the set files) on /dev/shm when available -
creating/truncating 10^5..10^6 small files on the disk-backed /tmp costs 3.5 ms each (measured), on
tmpfs 0.1 ms.  The directory is private (mkdtemp) and removed at exit; the files are still real files
accessed through *os.File."""
import atexit, json, os, shutil, tempfile
import vlib

PROP = "C20"
ENGINE = "hashset"

_fast = None


def fast_tmp():
    global _fast
    if _fast is None:
        base = "/dev/shm"
        if os.path.isdir(base) and os.access(base, os.W_OK):
            try:
                _fast = tempfile.mkdtemp(prefix="verif-c20-", dir=base)
                atexit.register(lambda: shutil.rmtree(_fast, ignore_errors=True))
            except OSError:
                _fast = None
        if _fast is None:
            _fast = vlib.sub("c20files")
    return _fast


def write_cfg(name, d, dup, export, maxbyte, view):
    p = os.path.join(vlib.spec_copy(), name)
    with open(p, "w") as f:
        f.write("SPECIFICATION Spec\nCONSTANTS D = %d\n BS = {1, 2, 3}\n DupAppend = %s\n Export = %s\n MaxByte = %d\n"
                % (d, "TRUE" if dup else "FALSE", "TRUE" if export else "FALSE", maxbyte))
        if view:
            f.write("VIEW View\nINVARIANT Inv\n")
        f.write("CHECK_DEADLOCK FALSE\n")
    return name


def trace_cfg():
    name = "TraceHashSet.cfg"
    with open(os.path.join(vlib.spec_copy(), name), "w") as f:
        f.write("SPECIFICATION Spec\nCONSTANTS MaxByte = 255\nCONSTRAINT Constr\nINVARIANT Inv\n"
                "POSTCONDITION Accepted\nCHECK_DEADLOCK FALSE\n")
    return name


def model_check(tier):
    """Use (A).  Anything but success is a problem of the specification: inconclusive."""
    runs = []
    depth = 7 if tier == "quick" else 11
    # -coverage 1 (vacuity guard) multiplies the run time (measured: 23 s -> 359 s at depth 10), so it is
    # switched on for the smallest configuration of the tier only
    todo = [("as-coded", depth, True, 2, False), ("dup-skipped", depth, False, 2, tier == "quick")]
    if tier == "thorough":
        todo.append(("real-bytes", 6, True, 255, True))
    for label, d, dup, maxbyte, cov in todo:
        cfg = write_cfg("HashSetGen.A.%s.cfg" % label, d, dup, False, maxbyte, True)
        res = vlib.run_tlc("HashSetGen", cfg, workers=min(vlib.NCPU, 8), coverage=cov, timeout=1500)
        vlib.require_ok(res, "HashSetGen invariants (%s)" % label)
        if cov and res.coverage_zero:
            raise vlib.Inconclusive("vacuity: actions never taken in HashSetGen: %s" % res.coverage_zero)
        runs.append({"config": label, "depth": d, "MaxByte": maxbyte, "generated": res.generated,
                     "distinct": res.distinct, "wall_s": round(res.wall, 1)})
    return runs


def thin(out, per_sig=3):
    """Keeps the first few failing scenarios of every signature (a broken tree fails tens of thousands of
    scenarios; each replay file needs a scan of the scenario file).  Returns the number of failing scenarios."""
    n = len(out.failures)
    out.failures.sort(key=lambda f: f[0])
    kept, seen = [], {}
    for f in out.failures:
        seen[f[1]] = seen.get(f[1], 0) + 1
        if seen[f[1]] <= per_sig:
            kept.append(f)
    out.failures = kept
    out.crashes = sorted(out.crashes)[:10]
    return n


def absorb_traces(v, rejections):
    for r in rejections:
        ev = json.loads(r["event"])
        v.violation("hashset/%s/trace-rejected" % ev.get("op"),
                    dict(engine=ENGINE, mode="trace", trace=[json.loads(x) for x in r["trace"]],
                         rejected_line=r["line_in_trace"], event=ev))


def run(tier, seed):
    v = vlib.Verdict(PROP, tier, seed)
    vlib.build_harness()
    env = {"TMPDIR": fast_tmp()}
    workers = min(vlib.NCPU, 8)

    # (A) the design satisfies the property
    a_runs = model_check(tier)

    # (B) exhaustive operation sequences
    d = 5 if tier == "quick" else 6
    scen = os.path.join(vlib.sub("scn"), "hashset.ndjson")
    res = vlib.run_tlc("HashSetGen", write_cfg("HashSetGen.B.cfg", d, True, True, 2, False), workers=workers,
                       scn_out=scen, timeout=2400)
    vlib.require_ok(res, "HashSetGen export")
    if res.scn != 3 * 8 ** d:
        raise vlib.Inconclusive("expected %d scenarios, TLC printed %d" % (3 * 8 ** d, res.scn))
    out = vlib.replay(ENGINE, scen, env=env)
    failing = thin(out)
    vlib.absorb_replay(v, out, ENGINE, scen)
    classes = dict(out.classes)
    replayed = out.total
    generated, distinct = res.generated, res.distinct
    tlc_runs = [{"module": "HashSetGen", "mode": "exhaustive D=%d" % d, "generated": res.generated,
                 "distinct": res.distinct, "scenarios": res.scn, "wall_s": round(res.wall, 1)}]

    # (B') long random sequences
    sim_scen = None
    if tier == "thorough":
        sim_scen = os.path.join(vlib.sub("scn"), "hashset-sim.ndjson")
        sd = 14
        rs = vlib.run_tlc("HashSetGen", write_cfg("HashSetGen.S.cfg", sd, True, True, 2, False), workers=workers,
                          scn_out=sim_scen, simulate=5000, depth=sd + 1, seed=seed, timeout=1500)
        if rs.scn == 0 or "Error" in rs.output_tail or "Finished in" not in rs.output_tail:
            raise vlib.Inconclusive("TLC -simulate failed on HashSetGen:\n" + rs.output_tail)
        out2 = vlib.replay(ENGINE, sim_scen, env=env)
        failing += thin(out2)
        vlib.absorb_replay(v, out2, ENGINE, sim_scen)
        for k, c in out2.classes.items():
            classes[k] = classes.get(k, 0) + c
        replayed += out2.total
        tlc_runs.append({"module": "HashSetGen", "mode": "simulate D=%d seed=%d" % (sd, seed),
                         "scenarios": rs.scn, "wall_s": round(rs.wall, 1)})

    # (C) real-scale traces + a sample of the scenarios as traces, judged by TLC
    tdir = vlib.sub("traces")
    trace = os.path.join(tdir, "hashset.ndjson")
    ntr, ln = (20, 400) if tier == "quick" else (220, 600)
    p = vlib.run_record(ENGINE, ["--seed", str(seed), "--n", str(ntr), "--len", str(ln), "--out", trace,
                                 "--dir", fast_tmp()])
    if p.returncode != 0:
        raise vlib.Inconclusive("recorder failed: " + p.stderr[-2000:])
    sample = os.path.join(tdir, "hashset-scn.ndjson")
    every = max(1, (3 * 8 ** d) // (300 if tier == "quick" else 3000))
    p = vlib.run_record(ENGINE, ["--fromscn", scen, "--every", str(every), "--out", sample, "--dir", fast_tmp()])
    if p.returncode != 0:
        raise vlib.Inconclusive("scenario-trace recorder failed: " + p.stderr[-2000:])
    with open(trace, "a") as f, open(sample) as g:
        shutil.copyfileobj(g, f)
    n_traces, n_events, rejections, last = vlib.validate_traces("TraceHashSet", trace_cfg(), trace, timeout=2400)
    absorb_traces(v, rejections)

    nontrivial = sum(c for k, c in classes.items() if k != "-")
    cov = {
        "states": distinct, "transitions": generated,
        "traces_validated_against_impl": n_traces - len(rejections),
        "trace_events": n_events,
        "evaluations": replayed + n_traces,
        "distinct_nontrivial": nontrivial,
        "rule": "one scenario per operation sequence of length D over {Add h1..h6, Flush, Reopen} x batch size 1..3 "
                "(TLC keeps the path in the state, so distinct states = distinct sequences); non-trivial = at "
                "least two distinct hashes added and at least one explicit Flush or Reopen; classes: f = explicit "
                "flush, r = reopen, d = some hash added again",
        "classes": classes,
        "failing_scenarios": failing,
        "samples": vlib.samples_from(scen, 3) + [json.loads(x) for x in _trace_samples(trace, 2)],
        "exhaustive": True,
        "tlc": tlc_runs,
        "model_checking": a_runs,
        "trace_validation": {"module": "TraceHashSet", "random_traces": ntr, "scenario_traces": n_traces - ntr,
                             "states": last.distinct if last else 0, "wall_s": round(last.wall, 1) if last else 0},
    }
    return v.finish("model_checking", cov, [
        "ids stand for hashes by rank in byte order (bytes.Compare); the projection id <-> hash is trusted",
        "the set file lives on tmpfs (/dev/shm) when available; the OS file layer is trusted",
        "the statement speaks about the set once flushed: an answer is demanded true only for hashes covered by an "
        "explicit Flush, false for hashes never added; pending additions (also those a full batch already wrote) and "
        "additions dropped by a close without Flush may answer either way",
        "file predicates are evaluated after explicit Flush and after Reopen only; Len() is recorded, never judged",
        "exhaustive universe: 6 hashes (00..00, 00ff..ff, 7f00..00, 7f00..01, ff00..00, ff..ff), batch sizes 1..3",
    ])


def _trace_samples(path, k):
    out = []
    with open(path) as f:
        for line in f:
            if '"op":"reset"' in line:
                continue
            if len(line) < 600:
                out.append(line)
            if len(out) >= k:
                break
    return out


def replay(path):
    with open(path) as f:
        doc = json.load(f)
    v = vlib.Verdict(PROP, "quick", doc.get("seed", 1))
    v.known_defs = []
    vlib.build_harness()
    if doc.get("mode") == "trace":
        tdir = vlib.sub("traces")
        ops = os.path.join(tdir, "ops.ndjson")
        with open(ops, "w") as f:
            for e in doc["trace"]:
                f.write(json.dumps(e, separators=(",", ":")) + "\n")
        t = os.path.join(tdir, "replay.ndjson")
        p = vlib.run_record(ENGINE, ["--reexec", ops, "--out", t, "--dir", fast_tmp()])
        if p.returncode != 0:
            raise vlib.Inconclusive("re-execution failed: " + p.stderr[-2000:])
        n_traces, n_events, rejections, last = vlib.validate_traces("TraceHashSet", trace_cfg(), t)
        if rejections:
            print("VIOLATION property=%s replay=%s" % (PROP, path))
            return 1
        return 0
    scen = os.path.join(vlib.sub("scn"), "one.ndjson")
    with open(scen, "w") as f:
        f.write(json.dumps(doc["scenario"]) + "\n")
    out = vlib.replay(ENGINE, scen, nshards=1, env={"TMPDIR": fast_tmp()})
    if out.errors:
        raise vlib.Inconclusive(str(out.errors))
    if out.failures or out.crashes or out.timeouts:
        print("VIOLATION property=%s replay=%s" % (PROP, path))
        return 1
    return 0
