"""C15 - the ref store behaves as a map from exact names to commits with faithful logs.

(A) TLC explores spec/RefsGen.tla (Refs.tla + operation alphabet) and checks its invariants;
(B) every transition of the model's state graph (cover under VIEW) is replayed, with the path
    leading to it, on a fresh real SQL ref store: return value and projected store must equal
    the specification's;
(C) seeded random operation sequences on a larger name universe are executed on the real store
    (in-memory and file-backed sqlite) and the recorded trace is validated by TraceRefs.tla."""
import json, os
import vlib

PROP = "C15"
ENGINE = "refs"


def gen_cfg(tier):
    d = vlib.spec_copy()
    name = "RefsGen.%s.cfg" % tier
    if tier == "quick":
        consts = "D = 3\n LogCap = 2\n Small = TRUE"
    else:
        consts = "D = 4\n LogCap = 2\n Small = FALSE"
    with open(os.path.join(d, name), "w") as f:
        f.write("SPECIFICATION Spec\nCONSTANTS %s\nVIEW View\nINVARIANT Inv\nCHECK_DEADLOCK FALSE\n" % consts)
    return name


def run(tier, seed):
    v = vlib.Verdict(PROP, tier, seed)
    vlib.build_harness()
    # (A)+(B): transition cover
    scen = os.path.join(vlib.sub("scn"), "refs.ndjson")
    res = vlib.run_tlc("RefsGen", gen_cfg(tier), scn_out=scen, timeout=3000)
    vlib.require_ok(res, "RefsGen")
    out = vlib.replay(ENGINE, scen)
    vlib.absorb_replay(v, out, ENGINE, scen)
    # the same cover on the FILE ref store, for the operations it implements (RefsGen!FsStep decides which)
    fscen = scen
    if tier != "quick":
        # (6 million transitions with the alias-sensitive cover: every sixth one, rotated by the seed, on the slower file store)
        fscen = scen + ".fs"
        with open(scen) as f, open(fscen, "w") as g:
            for i, line in enumerate(f):
                if i % 6 == seed % 6:
                    g.write(line)
    fout = vlib.replay(ENGINE, fscen, env={"REFS_STORE": "fs"})
    vlib.absorb_replay(v, fout, ENGINE, fscen, extra={"store": "fs"})
    if not any(k != "-" for k in fout.classes):
        raise vlib.Inconclusive("no scenario was applicable to the file ref store (vacuous)")
    # (C): real-scale traces
    trace = os.path.join(vlib.sub("traces"), "refs.ndjson")
    ntr, ln = (40, 80) if tier == "quick" else (400, 150)
    filedir = vlib.sub("refsfiles")
    p = vlib.run_record(ENGINE, ["--seed", str(seed), "--n", str(ntr), "--len", str(ln), "--out", trace,
                                 "--dir", filedir])
    if p.returncode != 0:
        raise vlib.Inconclusive("recorder failed: " + p.stderr[-2000:])
    n_traces, n_events, rejections, last = vlib.validate_traces("TraceRefs", "TraceRefs.cfg", trace)
    for r in rejections:
        ev = json.loads(r["event"])
        v.violation("refs/%s/trace-rejected" % ev.get("op"),
                    dict(engine=ENGINE, mode="trace", trace=[json.loads(x) for x in r["trace"]],
                         rejected_line=r["line_in_trace"], event=ev))
    # the bulk ref operations behind `wrgl remote rename / remove` (engine remotecfg, RemoteCfg.tla)
    from props import remotecfg_common
    rcov, _ = remotecfg_common.run(v, PROP, tier, seed)
    nontrivial = sum(c for k, c in out.classes.items() if k != "-")
    # two-repository behaviours of System2.tla (commit / fetch / push / pull / merge / prune through the real CLI)
    from props import system2_common
    sys2cov, _ = system2_common.run(v, PROP, tier, seed)
    cov = {
        "system2_behaviours": sys2cov,
        "remotecfg": rcov,
        "file_store": {"scenarios_judged": sum(c for k, c in fout.classes.items() if k != "-"), "skipped_not_implemented": fout.classes.get("-", 0),
                       "passed": fout.passed},
        "states": res.distinct, "transitions": res.generated,
        "traces_validated_against_impl": n_traces - len(rejections),
        "trace_events": n_events,
        "evaluations": out.total + n_traces,
        "distinct_nontrivial": nontrivial,
        "rule": "every (abstract state, operation) transition of RefsGen under VIEW <<refs,logs>> is one scenario "
                "(TLC prints each transition once); non-trivial = the path has more than one operation or leaves a "
                "non-empty store; classes count scenarios by their last operation",
        "classes": out.classes,
        "samples": vlib.samples_from(scen, 3) + vlib.samples_from(trace, 2),
        "exhaustive": True,
        "tlc": {"module": "RefsGen", "generated": res.generated, "distinct": res.distinct, "depth": res.depth,
                "wall_s": round(res.wall, 1)},
    }
    return v.finish("model_checking", cov, [
        "sqlite (mattn/go-sqlite3) itself is trusted; the harness opens it the way local.RepoDir does",
        "names/prefixes are drawn from the fixed alphabets of RefsGen.tla (cover) and record.go (traces)",
        "RenameAllRemoteRefs is only exercised when no target name exists",
    ])


def replay(path):
    with open(path) as f:
        doc = json.load(f)
    if doc.get("engine") == "system2":
        from props import system2_common
        return system2_common.replay(PROP, path, doc)
    v = vlib.Verdict(PROP, "quick", doc.get("seed", 1))
    v.known_defs = []
    if doc.get("mode") == "trace":
        t = os.path.join(vlib.sub("traces"), "replay.ndjson")
        with open(t, "w") as f:
            # re-execute the operations of the trace on the current code
            pass
        ops = os.path.join(vlib.sub("traces"), "ops.ndjson")
        with open(ops, "w") as f:
            for e in doc["trace"]:
                f.write(json.dumps(e) + "\n")
        p = vlib.run_record(ENGINE, ["--reexec", ops, "--out", t])
        if p.returncode != 0:
            raise vlib.Inconclusive("re-execution failed: " + p.stderr[-2000:])
        n_traces, n_events, rejections, last = vlib.validate_traces("TraceRefs", "TraceRefs.cfg", t)
        if rejections:
            print("VIOLATION property=%s replay=%s" % (PROP, path))
            return 1
        return 0
    scen = os.path.join(vlib.sub("scn"), "one.ndjson")
    with open(scen, "w") as f:
        f.write(json.dumps(doc["scenario"]) + "\n")
    out = vlib.replay(doc.get("engine", ENGINE), scen, nshards=1,
                      env={"REFS_STORE": "fs"} if doc.get("store") == "fs" else None)
    if out.errors:
        raise vlib.Inconclusive(str(out.errors))
    if out.failures or out.crashes or out.timeouts:
        print("VIOLATION property=%s replay=%s" % (PROP, path))
        return 1
    return 0
