"""C05 - three-way merge keeps all non-conflicting changes, never silently alters data.

The oracle is Merge.tla: one cell-wise rule in which "absent" is a value (row removal / addition and
column removal / addition are changes of cells), conflicts = two different changes of one cell.  TLC
checks the statement's laws on it (merge(base;X,base) = X, merge(base;X,X) = X, order independence)
over every ordered pair of branches of the universe of MergeGen.tla and exports, per pair, the
expected result, the conflicting keys and the keys where the statement allows two outcomes.  Every
pair is realised as real tables (key column at position 1..3 of the layout; a sample scaled to
multi-block tables), merged by the real pkg/merge the way `wrgl merge` drives it (rows path, and the
commit path that stores the merged table), and result / conflicts / columns are compared."""
import json, os
import vlib
from props import merge_common as mc

PROP = "C05"


def run(tier, seed):
    v = vlib.Verdict(PROP, tier, seed)
    vlib.build_harness()
    scen = os.path.join(vlib.sub("scn"), "merge.ndjson")
    if tier == "quick":
        # quick: every other pair of the quick universe, rotated by the seed (thorough runs a larger universe in full)
        res, n = mc.generate("quick", mc.QUICK, scen, commit_every=5, scale_every=60, keep=lambda i: i % 2 == seed % 2)
    else:
        # ~10^6 pairs in the thorough universe: a third of them per run, rotated by the seed (measured: the full
        # million takes about an hour of wall time on a loaded 16-core machine)
        res, n = mc.generate("thorough", mc.THOROUGH, scen, commit_every=4, scale_every=50, keep=lambda i: i % 3 == seed % 3)
    out = vlib.replay("merge", scen, timeout=120)
    vlib.absorb_replay(v, out, "merge", scen, crash_sig=lambda sc, t: "merge/crash")
    # N = 3 branches (Merge.tla is N-ary; MergeGen picks a third branch when ThirdOps is not empty)
    tscen = os.path.join(vlib.sub("scn"), "merge3.ndjson")
    if tier == "quick":
        tres, tn = mc.generate("tripleq", mc.TRIPLEQ, tscen, commit_every=9, keep=lambda i: i % 2 == seed % 2)
    else:
        tres, tn = mc.generate("triple", mc.TRIPLE, tscen, commit_every=9)
    tout = vlib.replay("merge", tscen, timeout=120)
    vlib.absorb_replay(v, tout, "merge", tscen, crash_sig=lambda sc, t: "merge/crash")
    # tables without a primary key: every pair (and a family of triples) of row sets over a two-row base
    kscen = os.path.join(vlib.sub("scn"), "mergekeyless.ndjson")
    kres = vlib.run_tlc("MergeKeylessGen", "MergeKeylessGen.cfg", workers=2, scn_out=kscen, timeout=300)
    vlib.require_ok(kres, "MergeKeylessGen")
    kout = vlib.replay("mergekeyless", kscen, nshards=4, timeout=120)
    vlib.absorb_replay(v, kout, "mergekeyless", kscen, crash_sig=lambda sc, t: "merge/keyless/crash")
    # two-repository behaviours of System2.tla (commit / fetch / push / pull / merge / prune through the real CLI)
    from props import system2_common
    sys2cov, _ = system2_common.run(v, PROP, tier, seed)
    cov = {
        "system2_behaviours": sys2cov,
        "states": res.distinct, "transitions": res.generated,
        "traces_validated_against_impl": out.passed,
        "evaluations": out.total,
        "distinct_nontrivial": sum(c for k, c in out.classes.items() if k != "plain"),
        "rule": "every ordered pair of branch versions of MergeGen's universe x key position is one scenario (distinct by "
                "construction); non-trivial = the pair involves a column change, a conflict, a key column that is not first "
                "or multi-block tables (class label of the scenario)",
        "classes": out.classes,
        "three_branches": {"scenarios": tout.total, "passed": tout.passed, "tlc_states": tres.distinct,
                           "laws": "order independence over the three branches; a third branch equal to the base is neutral"},
        "keyless": {"scenarios": kout.total, "passed": kout.passed, "tlc_states": kres.distinct,
                    "rule": "every ordered pair x 4 third branches of subsets of 4 rows over the base {1,2}, expected = Merge!KeylessResult"},
        "samples": vlib.samples_from(scen, 3),
        "exhaustive": True,
        "tlc": {"module": "MergeGen", "generated": res.generated, "distinct": res.distinct, "wall_s": round(res.wall, 1),
                "invariant": "Laws (identity, idempotence, order independence of the oracle)"},
    }
    return v.finish("model_checking", cov, [
        "the interactive merge UI is not driven: conflicts are dropped (resolution nil) and the remaining rows judged",
        "where a row-level change meets a column-level change the statement is ambiguous: both the cell-wise outcome and a reported conflict are accepted (Merge!AmbiguousKeys)",
        "column order is not part of a version; added-column positions are free",
        "N = 2 branches in the main keyed universe, N = 3 in a reduced one; keyless tables: N = 2 and N = 3 over 4 abstract rows (MergeKeylessGen)",
    ])


def replay(path):
    with open(path) as f:
        doc = json.load(f)
    if doc.get("engine") == "system2":
        from props import system2_common
        return system2_common.replay(PROP, path, doc)
    scen = os.path.join(vlib.sub("scn"), "one.ndjson")
    with open(scen, "w") as f:
        f.write(json.dumps(doc["scenario"]) + "\n")
    eng = "mergekeyless" if doc["scenario"].get("keyless") else "merge"
    out = vlib.replay(eng, scen, nshards=1, timeout=120)
    if out.errors:
        raise vlib.Inconclusive(str(out.errors))
    if out.failures or out.crashes or out.timeouts:
        print("VIOLATION property=%s replay=%s" % (PROP, path))
        return 1
    return 0
