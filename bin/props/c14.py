"""C14 - a transaction's commits land on all of its branches or on none.

(A) TLC model-checks spec/Txn.tla (configuration MCSpec): staging, CommitTx unfolded as the
    per-branch loop NewCommit(b) / MoveBranch(b) in any order and MarkCommitted, Discard as
    DeleteStagedRef(b)* / DeleteTxRow, Fail and Crash before EVERY store operation, re-runs,
    interleaved plain commits; invariants TerminalOutcomes (all / none / completable by a re-run
    with exactly one new commit per branch), NeverDuplicates, and the action properties
    DiscardKeepsHeads and CommittedRefuses.  -coverage 1: every action must be taken.
(B) TLC enumerates spec/TxnGen.tla: 1..3 staged branches (new and existing) x sequences of
    CommitTx / Discard x a failure or crash injected at every store-operation index; for each
    scenario it exports the SET of observation sequences Txn.tla allows.  Every scenario is
    replayed on the real transaction.Commit / transaction.Discard over fault-injecting wrappers
    around BOTH stores (a sample through the in-process `wrgl transaction commit|discard` with
    crashes injected at the store-write hooks); heads, reflogs (txid), transaction row, staged
    refs and the commit objects are projected and tested for membership.
(C) seeded random histories (three transactions over shared branches, plain commits in between,
    random failure points, re-runs, double commits) are recorded with the projection of the whole
    repository after every step and validated by TLC against Txn.tla (TraceTxn.tla).

Named deviations ("commit-twice", "rerun-dup", DESIGN.md 4) let (B) and (C) recognise the two
known defects of the pinned tree precisely and continue past them.

Helpers kept here because vlib lacks them: cfg writer, an indexed absorb of replay failures, and a
trace validator that also collects the DEV lines of named-deviation actions (same shape as in
c12.py)."""
import json, os, threading, time
import vlib

PROP = "C14"
ENGINE = "txn"

DEV_SIG = {"commit-twice": "txn/commit-twice/accepted", "rerun-dup": "txn/rerun/duplicate-commit"}

ASSUMPTIONS = [
    "failure points are the boundaries of store operations (a ref-store call or an object-store write is "
    "atomic: sqlite transactions and badger are trusted below their API, see C13 for crashes inside them); a "
    "failure means the operation is not performed and returns an error, a crash that the caller never gets an answer",
    "the statement quantifies over 'a failure at any point', not over the code's own numbering of its store "
    "operations: with a failure injected at the k-th real store operation the oracle is every outcome of "
    "Txn.tla stopped at SOME store operation (Txn!ExecAny); the outcome for exactly index k is exported too "
    "and only labels the scenario (tight / loose)",
    "not demanded, hence free in the specification: the order of branches, what happens to staged refs except "
    "after a successful discard (in particular a refused discard of a committed transaction may have removed "
    "them), whether a discarded transaction's row is deleted or marked, store operations performed before an "
    "operation is refused",
    "'a new commit carrying the staged data' is read as: a commit object other than the staged one, with the "
    "staged commit's table and the branch's previous head as its only parent; commit objects are counted per "
    "branch by table (tables are distinct per branch in every scenario)",
    "library mode uses in-memory sqlite + a mutex-protected map object store; the CLI sample uses badger + "
    "sqlite files and can inject crashes only (through the vhook store-write hooks)",
]


def _write_cfg(name, text):
    with open(os.path.join(vlib.spec_copy(), name), "w") as f:
        f.write(text)
    return name


def _set(xs):
    return "{" + ", ".join('"%s"' % x for x in xs) + "}"


def mc_cfg(name, branches, txs, faults, plain, dev=()):
    return _write_cfg(name,
                      "SPECIFICATION MCSpec\nCONSTANTS\n KnownDeviations = %s\n MCBranches = %s\n MCTxs = {%s}\n"
                      " MCFaults = %d\n MCPlain = %d\nINVARIANT TypeOK\nINVARIANT TerminalOutcomes\n"
                      "INVARIANT NeverDuplicates\nINVARIANT ReapplyLaw\nPROPERTY DiscardKeepsHeads\nPROPERTY CommittedRefuses\nPROPERTY HistoryKept\n"
                      "CHECK_DEADLOCK FALSE\n" % (_set(dev), _set(branches), ", ".join(str(t) for t in txs), faults, plain))


def gen_cfg(name, maxbr, minlen, maxlen, minfail, maxfail):
    return _write_cfg(name,
                      "SPECIFICATION Spec\nCONSTANTS\n KnownDeviations = {}\n MCBranches = {}\n MCTxs = {}\n MCFaults = 0\n"
                      " MCPlain = 0\n MaxBr = %d\n MinLen = %d\n MaxLen = %d\n MinFail = %d\n MaxFail = %d\nINVARIANT SetupSane\n"
                      "CHECK_DEADLOCK FALSE\n" % (maxbr, minlen, maxlen, minfail, maxfail))


def trace_cfg(name, dev):
    return _write_cfg(name,
                      "SPECIFICATION TSpec\nCONSTANTS\n KnownDeviations = %s\n MCBranches = {}\n MCTxs = {}\n MCFaults = 0\n"
                      " MCPlain = 0\nCONSTRAINT Constr\nINVARIANT TypeOK\nPOSTCONDITION Accepted\nCHECK_DEADLOCK FALSE\n"
                      % _set(dev))


# ----------------------------------------------------------------------------- (A)

def model_check(tier, out):
    """Configuration (A); the first run with -coverage 1 (vacuity guard); results in out['mc']."""
    try:
        cfgs = [mc_cfg("Txn.mc.0.cfg", ["a", "b"], [1], 2, 1)]
        if tier == "thorough":
            cfgs += [mc_cfg("Txn.mc.1.cfg", ["a", "b", "c"], [1], 1, 0),
                     mc_cfg("Txn.mc.2.cfg", ["a", "b"], [1, 2], 1, 0)]
        runs = []
        for i, cfg in enumerate(cfgs):
            res = vlib.run_tlc("Txn", cfg, workers=4, coverage=(i == 0), timeout=3000, heap="2g")
            vlib.require_ok(res, "Txn (configuration A, %s)" % cfg)
            if i == 0 and res.coverage_zero:
                raise vlib.Inconclusive("actions never taken (vacuous model): %s" % res.coverage_zero)
            runs.append(res)
        out["mc"] = runs
    except Exception as e:  # noqa
        out["mc_error"] = e


def teeth():
    """The properties of (A) must fail when the model behaves as the pinned code does."""
    got = []
    for i, dev in enumerate((["commit-twice"], ["rerun-dup"])):
        cfg = mc_cfg("Txn.mc.teeth%d.cfg" % i, ["a", "b"], [1], 1, 0, dev)
        res = vlib.run_tlc("Txn", cfg, workers=2, timeout=600, heap="2g")
        if res.ok or "violated" not in res.output_tail:
            raise vlib.Inconclusive("self-test: configuration (A) with deviation %s did not violate any property" % dev)
        got.append(dev[0])
    return "configuration (A) with the deviations %s enabled violates its properties, as it must" % got


# ----------------------------------------------------------------------------- (B)

def lines_at(path, wanted):
    wanted = set(wanted)
    out = {}
    if not wanted:
        return out
    with open(path) as f:
        for i, line in enumerate(f):
            if i in wanted:
                out[i] = line.rstrip("\n")
    return out




def absorb(v, outcome, scen):
    if outcome.errors:
        raise vlib.Inconclusive("harness errors: %s" % outcome.errors[:3])
    idxs = [i for i, _, _ in outcome.failures] + [i for i, _ in outcome.crashes] + list(outcome.timeouts)
    raw = lines_at(scen, idxs)
    for idx, sig, detail in outcome.failures:
        v.violation(sig, dict(engine=ENGINE, scenario=json.loads(raw[idx]), detail=detail))
    for idx, text in outcome.crashes:
        v.violation("txn/crash/child-death", dict(engine=ENGINE, scenario=json.loads(raw[idx]),
                                                  detail={"crashed": True, "stderr": text[-1500:]}))
    for idx in outcome.timeouts:
        v.violation("txn/timeout", dict(engine=ENGINE, scenario=json.loads(raw[idx]), detail={"timeout": True}))


def binding_selftest_replay(scen, bad):
    """Corrupt one expected value of one scenario the real code just passed (demand a second log
    entry on the first branch after the last operation): the harness must report exactly it."""
    pick = None
    with open(scen) as f:
        for i, line in enumerate(f):
            if i in bad:
                continue
            d = json.loads(line)
            if len(d["ops"]) >= 2 and d["ops"][0][0] == "commit" and d["ops"][0][1] > 0:
                pick = d
                break
    if pick is None:
        return "skipped: no passing scenario with a failed commit"
    a = json.loads(json.dumps(pick))
    for seq in a["allowed"]:
        seq[-1][3][1] += 1
    p = os.path.join(vlib.sub("scn"), "selftest.ndjson")
    with open(p, "w") as f:
        f.write(json.dumps(pick) + "\n" + json.dumps(a) + "\n" + json.dumps(pick) + "\n")
    out = vlib.replay(ENGINE, p, nshards=1)
    got = {i: s for i, s, _ in out.failures}
    if out.errors or out.crashes or list(got) != [1]:
        raise vlib.Inconclusive("binding self-test (replay): the corrupted expectation was not reported exactly: "
                                "failures=%s errors=%s crashes=%s" % (got, out.errors[:2], len(out.crashes)))
    return "corrupted log count in the allowed set of one scenario reported as exactly that scenario (%s)" % got[1]


# ----------------------------------------------------------------------------- (C)

def validate(trace_path, cfg, max_rejections=5):
    """TLC over the concatenated traces.  Returns (n_traces, n_events, rejections, devs, last, traces);
    devs = [(trace_index, line_in_trace, kind)] for lines consumed by a named deviation."""
    traces = vlib.split_traces(trace_path)
    n_traces = len(traces)
    n_events = sum(len(t[1]) for t in traces)
    remaining = list(enumerate(traces))
    rejections, devs, last, rounds = [], [], None, 0
    while remaining:
        rounds += 1
        cur = os.path.join(vlib.sub("traces"), "c14cur%d.ndjson" % rounds)
        offsets = []
        with open(cur, "w") as f:
            n = 0
            for ti, (first, lines) in remaining:
                offsets.append((n + 1, n + len(lines), ti))
                f.writelines(lines)
                n += len(lines)
        found = []
        res = vlib.run_tlc("TraceTxn", cfg, workers=1, env={"TRACE": cur}, timeout=1800, heap="2g",
                           on_scn=lambda doc: found.append(json.loads(doc)))
        last = res

        def locate(line):
            for a, b, ti in offsets:
                if a <= line <= b:
                    return ti, line - a + 1
            return None, None
        if res.ok:
            for d in found:
                ti, ln = locate(d["line"])
                devs.append((ti, ln, d["dev"]))
            break
        if res.rejected_at is None:
            raise vlib.Inconclusive("trace validation failed without a rejection line:\n" + res.output_tail)
        ti, ln = locate(res.rejected_at)
        if ti is None:
            raise vlib.Inconclusive("rejected line %s outside every trace" % res.rejected_at)
        rejections.append({"trace": ti, "line_in_trace": ln, "event": traces[ti][1][ln - 1].strip()})
        remaining = [(i, t) for i, t in remaining if i != ti]
        if len(rejections) >= max_rejections:
            break
    return n_traces, n_events, rejections, sorted(set(devs)), last, traces


def binding_selftest_trace(traces, skip, cfg):
    """Add one to the recorded number of commit objects of one event of a trace TLC has just
    accepted without any deviation: TLC must reject exactly that line."""
    for ti, (_, lines) in enumerate(traces):
        if ti in skip or len(lines) < 6:
            continue
        k = None
        for j, ln in enumerate(lines):
            if '"op":"txcommit"' in ln and '"res":"ok"' in ln:
                k = j
                break
        if k is None:
            continue
        e = json.loads(lines[k])
        e["ncommits"] += 1
        p = os.path.join(vlib.sub("traces"), "c14selftest.ndjson")
        with open(p, "w") as f:
            f.write("".join(lines[:k]) + json.dumps(e, separators=(",", ":")) + "\n" + "".join(lines[k + 1:]))
        res = vlib.run_tlc("TraceTxn", cfg, workers=1, env={"TRACE": p}, timeout=600, heap="2g")
        if res.ok or res.rejected_at != k + 1:
            raise vlib.Inconclusive("binding self-test (trace): corrupted line %d was not rejected exactly "
                                    "(rejected_at=%s ok=%s)" % (k + 1, res.rejected_at, res.ok))
        return "corrupted commit-object count of one trace event rejected at exactly that line"
    return "skipped: no trace accepted without a deviation that has a successful commit"


# ----------------------------------------------------------------------------- run

def run(tier, seed):
    v = vlib.Verdict(PROP, tier, seed)
    vlib.build_harness()
    vlib.spec_copy()
    # (A) in the background, next to the generation of (B)
    side = {}
    th = threading.Thread(target=model_check, args=(tier, side))
    th.start()
    time.sleep(0.5)   # vlib.run_tlc numbers its metadirs without a lock
    # (B)
    scen = os.path.join(vlib.sub("scn"), "txn.ndjson")
    # (MaxBr, MinLen, MaxLen, MinFail, MaxFail) per generation run; the runs do not overlap
    if tier == "quick":
        universes = [(3, 1, 3, 0, 1)]
    else:
        universes = [(3, 1, 3, 0, 1), (3, 4, 4, 0, 1), (2, 1, 3, 2, 2)]
    gens = []
    with open(scen, "w") as allf:
        for gi, (maxbr, minlen, maxlen, minfail, maxfail) in enumerate(universes):
            part = scen + ".%d" % gi
            res = vlib.run_tlc("TxnGen", gen_cfg("TxnGen.%s.%d.cfg" % (tier, gi), maxbr, minlen, maxlen, minfail, maxfail),
                               workers=max(2, vlib.NCPU - 4), scn_out=part, timeout=3000, heap="2g")
            vlib.require_ok(res, "TxnGen %s" % (universes[gi],))
            if res.scn == 0:
                raise vlib.Inconclusive("TxnGen printed no scenario")
            with open(part) as f:
                for line in f:
                    allf.write(line)
            os.remove(part)
            gens.append(res)
    n_scn = sum(g.scn for g in gens)
    cli_every = 11 if tier == "quick" else 37
    out = vlib.replay(ENGINE, scen, env={"TXN_CLI_EVERY": str(cli_every)}, timeout=20)
    if out.total != n_scn and not out.errors and not out.truncated:
        raise vlib.Inconclusive("replayed %d of %d scenarios" % (out.total, n_scn))
    absorb(v, out, scen)
    bad = set([i for i, _, _ in out.failures] + [i for i, _ in out.crashes] + list(out.timeouts))
    st_replay = binding_selftest_replay(scen, bad)
    th.join()
    if "mc_error" in side:
        raise side["mc_error"]
    mc = side["mc"]
    # (C)
    trace = os.path.join(vlib.sub("traces"), "txn.ndjson")
    # CLI-mode traces open badger + sqlite files for every operation: few of them
    ntr, ln, cli = (60, 40, 5) if tier == "quick" else (600, 60, 25)
    p = vlib.run_record(ENGINE, ["--seed", str(seed), "--n", str(ntr), "--len", str(ln), "--out", trace,
                                 "--dir", vlib.sub("txnrepos"), "--cli-every", str(cli)], timeout=2400)
    if p.returncode != 0:
        raise vlib.Inconclusive("recorder failed: " + p.stderr[-2000:])
    cfg = trace_cfg("TraceTxn.known.cfg", sorted(DEV_SIG))
    n_traces, n_events, rejections, devs, last, traces = validate(trace, cfg)
    for r in rejections:
        ev = json.loads(r["event"])
        v.violation("txn/trace-rejected/%s" % ev.get("op"),
                    dict(engine=ENGINE, mode="trace", trace=[json.loads(x) for x in traces[r["trace"]][1]],
                         rejected_line=r["line_in_trace"], event=ev))
    dev_traces = set()
    dev_kinds = {}
    for ti, lno, kind in devs:
        dev_kinds[kind] = dev_kinds.get(kind, 0) + 1
        if (ti, kind) in dev_traces:
            continue
        dev_traces.add((ti, kind))
        v.violation(DEV_SIG.get(kind, "txn/deviation/" + str(kind)),
                    dict(engine=ENGINE, mode="trace", trace=[json.loads(x) for x in traces[ti][1]],
                         deviation_line=lno, deviation=kind))
    skip = set(ti for ti, _ in dev_traces) | set(r["trace"] for r in rejections)
    st_trace = binding_selftest_trace(traces, skip, cfg)
    st_teeth = teeth() if tier == "thorough" else "skipped in the quick tier"
    # evidence
    nontrivial = sum(c for k, c in out.classes.items() if k != "-")
    fails_by_sig = _count(s for _, s, _ in out.failures)
    known_fail = sum(c for s, c in fails_by_sig.items() if s in DEV_SIG.values())
    fired = sum(c for k, c in out.classes.items() if "!" in k) + \
        sum(1 for _, _, d in out.failures if any((d or {}).get("fault_fired", [])))
    modes = {}
    ops = {}
    for _, lines in traces:
        m = json.loads(lines[0]).get("mode")
        modes[m] = modes.get(m, 0) + 1
        for ln in lines:
            e = json.loads(ln)
            k = e.get("op", "?") + ("/" + e["res"] if e.get("res") else "")
            ops[k] = ops.get(k, 0) + 1
    if not ops.get("reapply/ok") or not ops.get("reapply/err"):
        raise vlib.Inconclusive("the recorded histories hold no accepted and refused `wrgl reapply` (vacuous): %s" % ops)
    cov = {
        "evaluations": out.total + n_traces,
        "distinct_nontrivial": nontrivial + known_fail,
        "rule": "one scenario per initial state of TxnGen (1..3 staged branches, each new or existing, x every "
                "sequence of CommitTx/Discard operations x injected failures, for (MaxBr, MinLen, MaxLen, MinFail, MaxFail) in "
                "%s, each failure at every "
                "store-operation index 1..2n+1 (commit) / 1..n+1 (discard) and of both kinds error/crash); "
                "scenarios are distinct by construction (distinct TLC states); non-trivial = more than one "
                "operation, or an injected failure that actually fired in the real code (the child reports it); "
                "scenarios failing with a known-finding signature are non-trivial (they have >= 2 operations)"
                % (universes,),
        "samples": _samples(scen) + _trace_sample(traces),
        "states": sum(m.distinct for m in mc) + sum(g.distinct for g in gens),
        "transitions": sum(m.generated for m in mc) + sum(g.generated for g in gens),
        "traces_validated_against_impl": n_traces - len(rejections),
        "trace_events": n_events,
        "traces_by_mode": modes,
        "trace_operations": ops,
        "trace_lines_needing_named_deviation": dev_kinds,
        "scenarios": n_scn,
        "scenarios_with_a_fired_fault": fired,
        "cli_scenarios": sum(c for k, c in out.classes.items() if k.endswith("/cli")) +
        sum(1 for _, _, d in out.failures if (d or {}).get("mode") == "cli"),
        "scenarios_matching_the_exact_index_prediction": sum(c for k, c in out.classes.items() if "/tight/" in k),
        "failed_scenarios_by_signature": fails_by_sig,
        "classes": _top(out.classes, 40),
        "exhaustive": True,
        "tlc": {"model_checking": [{"module": "Txn", "spec": "MCSpec", "generated": m.generated, "distinct": m.distinct,
                                    "depth": m.depth, "wall_s": round(m.wall, 1)} for m in mc],
                "generation": [{"module": "TxnGen", "universe": list(u), "generated": g.generated, "distinct": g.distinct,
                                "scenarios": g.scn, "wall_s": round(g.wall, 1)} for u, g in zip(universes, gens)],
                "trace_validation": {"module": "TraceTxn", "states": last.distinct if last else 0}},
        "self_tests": ["vacuity (-coverage 1 on configuration A: every action taken)", st_replay, st_trace, st_teeth],
    }
    return v.finish("fault_enumeration", cov, ASSUMPTIONS)


def _samples(scen):
    out = []
    for d in vlib.samples_from(scen, 3):
        out.append({"ex": d["ex"], "ops": d["ops"], "allowed": d["allowed"][:4], "n_allowed": len(d["allowed"])})
    return out


def _trace_sample(traces):
    for _, lines in traces:
        for ln in lines:
            if '"op":"txcommit"' in ln and '"fired":true' in ln:
                return [json.loads(ln)]
    return []


def _count(it):
    d = {}
    for x in it:
        d[x] = d.get(x, 0) + 1
    return d


def _top(d, n):
    items = sorted(d.items(), key=lambda kv: -kv[1])
    out = dict(items[:n])
    if len(items) > n:
        out["(other %d classes)" % (len(items) - n)] = sum(c for _, c in items[n:])
    return out


def replay(path):
    with open(path) as f:
        doc = json.load(f)
    if doc.get("mode") == "trace":
        ops = os.path.join(vlib.sub("traces"), "ops.ndjson")
        with open(ops, "w") as f:
            for e in doc["trace"]:
                f.write(json.dumps(e) + "\n")
        t = os.path.join(vlib.sub("traces"), "replay.ndjson")
        p = vlib.run_record(ENGINE, ["--reexec", ops, "--out", t, "--dir", vlib.sub("txnrepos")])
        if p.returncode != 0:
            raise vlib.Inconclusive("re-execution failed: " + p.stderr[-2000:])
        # the replay of a named-deviation witness reports the raw behaviour (no deviation
        # admitted); the replay of a rejected trace admits the named deviations as the run did,
        # so that it fails iff the rejection itself persists
        known = [] if doc.get("deviation") else sorted(DEV_SIG)
        n_traces, n_events, rejections, devs, last, traces = validate(t, trace_cfg("TraceTxn.replay.cfg", known))
        if rejections:
            print("VIOLATION property=%s replay=%s" % (PROP, path))
            return 1
        return 0
    sc = dict(doc["scenario"])
    if (doc.get("detail") or {}).get("mode") == "cli":
        sc["mode"] = "cli"
    scen = os.path.join(vlib.sub("scn"), "one.ndjson")
    with open(scen, "w") as f:
        f.write(json.dumps(sc) + "\n")
    out = vlib.replay(ENGINE, scen, nshards=1)
    if out.errors:
        raise vlib.Inconclusive(str(out.errors))
    if out.failures or out.crashes or out.timeouts:
        print("VIOLATION property=%s replay=%s" % (PROP, path))
        return 1
    return 0
