"""C19 - external sort emits every distinct key once, in key order, at any memory limit.

The contract is Ingest.tla's (Expected / Lossless / StrictlyAscending) and the design operators
(Chunks, MergeAll with the tie rule, Dedupe against no previous key) are checked against it by TLC
for every small input x key shape x run size; every such scenario x removed-column set (filler
column before / between the key columns, payload after them) is replayed through BOTH outputs of
the real sorter (SortedBlocks decoded, SortedRows), compared with the expectation and with each
other, and the child's private temp directory must hold no spill file after Close.  Real-scale
multisets go through the same sorter in the C01 traces."""
import json, os
import vlib
from props import ingest_common as ic

PROP = "C19"


def run(tier, seed):
    v = vlib.Verdict(PROP, tier, seed)
    vlib.build_harness()
    scen = os.path.join(vlib.sub("scn"), "sorter.ndjson")
    res = vlib.run_tlc("IngestGen", ic.gen_cfg(tier, sorter=True), scn_out=scen, timeout=3000)
    vlib.require_ok(res, "IngestGen(sorter)")
    out = vlib.replay("sorter", scen)
    vlib.absorb_replay(v, out, "sorter", scen)
    nontrivial = sum(c for k, c in out.classes.items() if k != "-")
    cov = {
        "states": res.distinct, "transitions": res.generated,
        "traces_validated_against_impl": out.passed,
        "evaluations": out.total,
        "distinct_nontrivial": nontrivial,
        "rule": "every (input row sequence, key shape, run size, padding, removed-column set) state of IngestGen is one "
                "scenario, distinct by construction; both sorter outputs are produced and compared; non-trivial = at least one row",
        "classes": dict(sorted(out.classes.items(), key=lambda kv: -kv[1])[:40]),
        "samples": vlib.samples_from(scen, 4),
        "exhaustive": True,
        "tlc": {"module": "IngestGen", "generated": res.generated, "distinct": res.distinct, "wall_s": round(res.wall, 1)},
    }
    return v.finish("model_checking", cov, [
        "removed columns are never key columns (a merge never removes a key column); without a key nothing is removed",
        "with duplicate keys each output may keep a different duplicate (sort.Slice is not stable): both are judged against the allowed set, equality of the two outputs is demanded for unique keys",
    ])


def replay(path):
    with open(path) as f:
        doc = json.load(f)
    scen = os.path.join(vlib.sub("scn"), "one.ndjson")
    with open(scen, "w") as f:
        f.write(json.dumps(doc["scenario"]) + "\n")
    out = vlib.replay("sorter", scen, nshards=1)
    if out.errors:
        raise vlib.Inconclusive(str(out.errors))
    if out.failures or out.crashes or out.timeouts:
        print("VIOLATION property=%s replay=%s" % (PROP, path))
        return 1
    return 0
