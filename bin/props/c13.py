"""C13 - a crash at any point leaves the repository consistent and the operation repeatable.

(A) CrashModel.tla: every linearization of an operation's write set under the precedence safety
    needs, with a crash between any two writes, keeps Crash!RepoConsistent (TLC, commit and prune);
    the orders read off the code for ingest and prune must violate it (self-test of the model).
(C) write traces: commit (new / existing branch), merge (fast-forward / merge commit), prune and gc run
    through the real command line in-process; the verif hooks in the badger and SQL stores record
    every write; TLC (TraceCrash.tla) evaluates RepoConsistent in the state after EVERY write, on the
    structure scanned from the real stores.
    crash states: the real wrgl binary (built with the tag) is killed at its n-th store write for
    every n (VERIF_CRASH_AT), the directory reopened and scanned -> RepoConsistent on the REAL
    post-crash store; the command is then re-run and must succeed and end where the uninterrupted
    run ends (same refs -> same tables and history; commit times aside)."""
import json, os
import vlib

PROP = "C13"
KINDS = ["commit-new", "commit-existing", "merge", "merge-ff", "prune", "gc", "fetch", "pull"]


def model_checks():
    detail = {}
    states = trans = 0
    for op in ("commit", "prune"):
        res = vlib.run_tlc("CrashModel", "CrashModel.%s.safe.cfg" % op, timeout=600, heap="2g", workers=4)
        vlib.require_ok(res, "CrashModel/%s.safe" % op)
        detail[op + ".safe"] = {"generated": res.generated, "distinct": res.distinct}
        states += res.distinct
        trans += res.generated
        res = vlib.run_tlc("CrashModel", "CrashModel.%s.as-coded.cfg" % op, timeout=600, heap="2g", workers=4)
        if res.ok or "Consistent" not in res.violated:
            raise vlib.Inconclusive("self-test: CrashModel %s as-coded must violate Consistent:\n%s" % (op, res.output_tail))
        detail[op + ".as-coded"] = "violates Consistent as expected (the order the code uses; see the trace findings)"
    return states, trans, detail


def cases(seed, tier, path):
    n = 0
    with open(path, "w") as f:
        reps = 1 if tier == "quick" else 4
        for rep in range(reps):
            for k in KINDS:
                for rows in ((300,) if tier == "quick" else (1, 300, 700)):
                    f.write(json.dumps({"seed": seed + rep, "idx": n, "kind": k, "mode": "trace", "rows": rows}) + "\n")
                    n += 1
        f.write(json.dumps({"seed": seed, "idx": n, "kind": "ingest-fault", "mode": "trace", "rows": 600}) + "\n")
        n += 1
        kill_kinds = ["commit-existing", "prune", "merge", "fetch", "pull"] if tier == "quick" else KINDS
        for rep in range(1 if tier == "quick" else 4):
            for k in kill_kinds:
                for rows in ((300,) if tier == "quick" else (1, 255, 256, 300, 700)):
                    f.write(json.dumps({"seed": seed + rep, "idx": n, "kind": k, "mode": "kill", "rows": rows}) + "\n")
                    n += 1
        if tier != "quick":
            for rep in range(3):
                f.write(json.dumps({"seed": seed + 1 + rep, "idx": n, "kind": "ingest-fault", "mode": "trace", "rows": 300 + 300 * rep}) + "\n")
                n += 1
    return n


def split(side):
    p = os.path.join(vlib.sub("traces"), "crash.ndjson")
    with open(p, "w") as out:
        if os.path.exists(side):
            for line in open(side):
                line = line.strip()
                if line:
                    doc = json.loads(line)
                    if doc.get("kind") == "crash":
                        for d in doc["docs"]:
                            out.write(json.dumps(d) + "\n")
    return p


def split_traces(path):
    """A trace starts at each begin / state line."""
    traces, cur = [], None
    for line in open(path):
        if '"op": "begin"' in line or '"op": "state"' in line or cur is None:
            cur = []
            traces.append(cur)
        cur.append(line)
    return traces


def validate(v, trace):
    traces = split_traces(trace)
    n_ok = n_events = 0
    remaining = traces
    rounds = 0
    while remaining and rounds < 40:
        rounds += 1
        cur = os.path.join(vlib.sub("traces"), "crash.cur%d.ndjson" % rounds)
        offs = []
        with open(cur, "w") as f:
            n = 0
            for t in remaining:
                offs.append((n + 1, n + len(t)))
                f.writelines(t)
                n += len(t)
        res = vlib.run_tlc("TraceCrash", "TraceCrash.cfg", workers=1, env={"TRACE": cur}, timeout=1200, heap="4g")
        if res.ok:
            n_ok += len(remaining)
            n_events += sum(len(t) for t in remaining)
            break
        if res.rejected_at is None:
            raise vlib.Inconclusive("TraceCrash failed without rejection:\n" + res.output_tail)
        hit = next(i for i, (a, b) in enumerate(offs) if a <= res.rejected_at <= b)
        t = remaining[hit]
        head = json.loads(t[0])
        ln = res.rejected_at - offs[hit][0]
        clause = res.broken.get(res.rejected_at, "rejected")
        name = head.get("name", "?")
        opkind = name.split(" ")[0]
        mode = "killed" if head.get("op") == "state" else "trace"
        ev = json.loads(t[ln])
        v.violation("crash/%s/%s/%s" % (opkind, mode, clause),
                    dict(engine="crash", operation=name, clause=clause, at_line=ln, event=ev,
                         writes_before=[json.loads(x) for x in t[1:ln + 1]][-12:]))
        n_ok += hit
        n_events += sum(len(x) for x in remaining[:hit])
        # a "state" trace is followed by its rerun line in the same trace: if the state was broken the
        # rerun has not been judged; re-queue it alone
        rest = []
        if head.get("op") == "state" and len(t) > ln + 1:
            rest = [[json.dumps({"op": "end"}) + "\n"] + t[ln + 1:]]
        elif head.get("op") == "state" and ln == 0 and len(t) > 1:
            rest = [[json.dumps({"op": "end"}) + "\n"] + t[1:]]
        remaining = rest + remaining[hit + 1:]
    return len(traces), n_events


def run(tier, seed):
    v = vlib.Verdict(PROP, tier, seed)
    vlib.build_harness()
    wrgl = vlib.build_wrgl()
    states, trans, detail = model_checks()
    scen = os.path.join(vlib.sub("scn"), "crash.cases.ndjson")
    n = cases(seed, tier, scen)
    side = os.path.join(vlib.sub("traces"), "crash.side")
    out = vlib.replay("crash", scen, side_path=side, timeout=600, env={"VERIF_WRGL_BIN": wrgl}, nshards=min(8, vlib.NCPU))
    vlib.absorb_replay(v, out, "crash", scen, crash_sig=lambda sc, t: "crash/harness-child-died/" + sc.get("kind", "?"))
    trace = split(side)
    n_traces, n_events = validate(v, trace)
    kills = sum(1 for line in open(trace) if '"op": "state"' in line)
    cov = {
        "evaluations": n_events, "distinct_nontrivial": n_traces,
        "rule": "one evaluation = RepoConsistent judged by TLC in the state after one real store write (write traces) or on one "
                "real post-kill store scan / one re-run (crash states); distinct_nontrivial = number of traces (one per operation "
                "run resp. per kill point), all distinct by construction",
        "states": states, "transitions": trans,
        "traces_validated_against_impl": n_traces,
        "kill_points": kills,
        "classes": out.classes,
        "model_configs": detail,
        "samples": vlib.samples_from(scen, 3) + vlib.samples_from(trace, 2),
    }
    return v.finish("fault_enumeration", cov, [
        "crash points are store-write boundaries (badger / sqlite durability below the API is trusted)",
        "a crash inside a multi-statement SQL transaction is exercised by the kill runs only (the hook between the statements is a kill point); the write traces treat the ref write as atomic",
        "fetch and pull run against the harness's reference server (the real server lives in another repository)",
    ])


def replay(path):
    with open(path) as f:
        doc = json.load(f)
    raise vlib.Inconclusive("rerun `bin/check C13` (operation %s)" % doc.get("operation"))
