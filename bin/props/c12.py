"""C12 - pruning removes only unreachable objects and leaves every ref fully usable.

(A) TLC explores spec/PruneGen.tla: every scenario of the bounded universe (commit DAG x table
    assignment over three tables sharing blocks x ref subsets with rotating ref kinds x absent
    tables) is one initial state; from it the design of Prune.tla (MarkCommits, SweepTables,
    MarkBlocks, SweepBlocks, SweepBlockIndices, SweepCommits, then the whole thing again) is run
    and checked against Post (statement + Prune o Prune = Prune), NeverCrash and LiveUntouched.
(B) every scenario line (with the statement's Must / MustNot sets computed by TLC) is replayed on
    the real prune.Prune (a sample through the in-process `wrgl prune` CLI on a real .wrgl
    directory): real repositories with really shared 255-row blocks, pruned twice; key sets
    compared with Must / MustNot; every surviving commit that has its table is re-read in full.
(C) seeded random repositories of 10-30 commits pruned by prune.Prune / `wrgl prune` / `wrgl gc`
    are recorded as before/after key sets and validated by TLC (TracePrune.tla).

Helpers kept here because vlib lacks them: parallel sharded TLC generation, an indexed
absorb of replay failures (vlib.absorb_replay re-scans the scenario file per failure), and a
trace validator that also collects the DEV lines of named-deviation actions."""
import json, os, threading, time
import vlib

PROP = "C12"
ENGINE = "prune"

ASSUMPTIONS = [
    "every commit object a ref or a parent link names exists (shallow = table absent, as in the statement); "
    "tables are either complete or absent, with left-over index/profile/block objects in the traces",
    "object identity is by key: abstract block j is a fixed 255-row key range ingested through the real "
    "ingest pipeline, so a block shared by two tables is one real object; the bijection is checked at build time",
    "objects the statement is silent about (tables no commit names, indices/profiles of removed tables, block "
    "indices of removed blocks, anything when no commit is unreachable) may stay or go; the repeated prune "
    "must leave the key set unchanged (DESIGN.md 5/C12: Prune o Prune = Prune)",
    "for `wrgl gc` refs of in-progress transactions older than the transaction TTL are not roots (gc "
    "discards those transactions first); for `wrgl prune` / prune.Prune they are",
    "badger, sqlite and the in-memory mock object store are trusted as key-value stores",
]


def _write_cfg(name, text):
    with open(os.path.join(vlib.spec_copy(), name), "w") as f:
        f.write(text)
    return name


def gen_cfg(name, n, min_n, shard, nshards, ntables=3, twin_only=False):
    return _write_cfg(name,
                      "SPECIFICATION Spec\nCONSTANTS N = %d\n MinN = %d\n NTables = %d\n TwinOnly = %s\n Shard = %d\n NShards = %d\n"
                      " KnownDeviations = {}\nINVARIANT Post\nINVARIANT NeverCrash\nINVARIANT LiveUntouched\n"
                      "CHECK_DEADLOCK FALSE\n" % (n, min_n, ntables, "TRUE" if twin_only else "FALSE", shard, nshards))


def generate(tier, scen):
    """Runs PruneGen (sharded over parallel TLC processes in the thorough tier) and returns
    (scenarios, states, transitions, wall, shards)."""
    n = 3 if tier == "quick" else 4
    nshards = 1 if tier == "quick" else 8
    results = [None] * nshards
    errors = []
    parts = [scen + ".%d" % k for k in range(nshards)]
    cfgs = [gen_cfg("PruneGen.%s.%d.cfg" % (tier, k), n, 1, k, nshards) for k in range(nshards)]
    workers = max(1, vlib.NCPU // nshards)

    def one(k):
        try:
            results[k] = vlib.run_tlc("PruneGen", cfgs[k], workers=workers, scn_out=parts[k], timeout=3000,
                                      heap="3g" if nshards > 1 else None)
        except Exception as e:  # noqa
            errors.append(e)

    t0 = time.time()
    ths = []
    for k in range(nshards):
        th = threading.Thread(target=one, args=(k,))
        th.start()
        ths.append(th)
        time.sleep(0.4)   # vlib.run_tlc numbers its metadirs without a lock
    for th in ths:
        th.join()
    if errors:
        raise vlib.Inconclusive("TLC generation failed: %s" % errors[0])
    total = states = trans = 0
    with open(scen, "w") as out:
        for k in range(nshards):
            vlib.require_ok(results[k], "PruneGen shard %d/%d" % (k, nshards))
            with open(parts[k]) as f:
                for line in f:
                    out.write(line)
                    total += 1
            os.remove(parts[k])
            states += results[k].distinct
            trans += results[k].generated
    # the fourth table (T1's blocks under another primary key: block indices of its own).  quick: every scenario
    # of three commits in which a commit names it, with nothing, T1 or T4 absent; thorough: all of them
    twin = scen + ".twin"
    res = vlib.run_tlc("PruneGen", gen_cfg("PruneGen.%s.twin.cfg" % tier, 3, 1, 0, 1, ntables=4, twin_only=(tier == "quick")),
                       workers=vlib.NCPU, scn_out=twin, timeout=3000)
    vlib.require_ok(res, "PruneGen four tables")
    with open(scen, "a") as out, open(twin) as f:
        for line in f:
            out.write(line)
            total += 1
    os.remove(twin)
    states += res.distinct
    trans += res.generated
    return total, states, trans, time.time() - t0, nshards + 1


def vacuity_guard():
    """-coverage 1 on the smallest configuration: every action of the design must be taken
    (the named deviation must NOT be: it is disabled in every model-checking configuration)."""
    cfg = gen_cfg("PruneGen.cov.cfg", 2, 1, 0, 1, ntables=4)
    res = vlib.run_tlc("PruneGen", cfg, workers=2, coverage=True, timeout=600)
    vlib.require_ok(res, "PruneGen coverage run")
    zero = [z for z in res.coverage_zero if not z.startswith("SweepTablesAsCoded@")]
    if zero:
        raise vlib.Inconclusive("actions never taken (vacuous model): %s" % zero)
    if not any(z.startswith("SweepTablesAsCoded@") for z in res.coverage_zero):
        raise vlib.Inconclusive("the named deviation SweepTablesAsCoded is enabled in a model-checking configuration")


def lines_at(path, wanted):
    wanted = set(wanted)
    out = {}
    if not wanted:
        return out
    with open(path) as f:
        for i, line in enumerate(f):
            if i in wanted:
                out[i] = line.rstrip("\n")
    return out


def absorb(v, outcome, scen, extra=None):
    if outcome.errors:
        raise vlib.Inconclusive("harness errors: %s" % outcome.errors[:3])
    idxs = [i for i, _, _ in outcome.failures] + [i for i, _ in outcome.crashes] + list(outcome.timeouts)
    raw = lines_at(scen, idxs)
    for idx, sig, detail in outcome.failures:
        v.violation(sig, dict(engine=ENGINE, scenario=json.loads(raw[idx]), detail=detail, **(extra or {})))
    for idx, text in outcome.crashes:
        # prune.Prune panics are recovered in the child; a child death is a crash on another goroutine
        v.violation("prune/crash/child-death", dict(engine=ENGINE, scenario=json.loads(raw[idx]),
                                                    detail={"crashed": True, "stderr": text[-1500:]}, **(extra or {})))
    for idx in outcome.timeouts:
        v.violation("prune/timeout", dict(engine=ENGINE, scenario=json.loads(raw[idx]), detail={"timeout": True},
                                          **(extra or {})))


def binding_selftest_replay(scen, bad):
    """Corrupt one expected value of one scenario (one that the real code just passed) in two
    ways; the harness must report both, and still pass the untouched one."""
    pick = None
    with open(scen) as f:
        for i, line in enumerate(f):
            if i in bad:
                continue
            d = json.loads(line)
            if d["mnot"]["c"] and d["must"]["b"] and not d["ss"]:
                pick = d
                break
    if pick is None:
        return "skipped: no passing scenario with something to remove"
    a = json.loads(json.dumps(pick))
    a["must"]["c"] = sorted(a["must"]["c"] + [a["mnot"]["c"][0]])      # demand a dead commit
    a["mnot"]["c"] = a["mnot"]["c"][1:]
    b = json.loads(json.dumps(pick))
    b["mnot"]["b"] = sorted(b["mnot"]["b"] + [b["must"]["b"][0]])      # forbid a live block
    b["must"]["b"] = b["must"]["b"][1:]
    p = os.path.join(vlib.sub("scn"), "selftest.ndjson")
    with open(p, "w") as f:
        f.write(json.dumps(pick) + "\n" + json.dumps(a) + "\n" + json.dumps(b) + "\n")
    out = vlib.replay(ENGINE, p, nshards=1)
    got = {i: s for i, s, _ in out.failures}
    if out.errors or out.crashes or got != {1: "prune/state/lost-live", 2: "prune/state/kept-garbage"}:
        raise vlib.Inconclusive("binding self-test (replay): corrupted expectations were not reported exactly: "
                                "failures=%s errors=%s crashes=%s" % (got, out.errors[:2], len(out.crashes)))
    return "corrupted must / mustNot of one scenario reported exactly"


def validate(trace_path, cfg, max_rejections=5):
    """TLC over the concatenated traces.  Returns (n_traces, n_events, rejections, devs, last, traces)
    where devs = [(trace_index, line_in_trace, kind)] for lines consumed by a named deviation."""
    traces = vlib.split_traces(trace_path)
    n_traces = len(traces)
    n_events = sum(len(t[1]) for t in traces)
    remaining = list(enumerate(traces))
    rejections, devs, last, rounds = [], [], None, 0
    while remaining:
        rounds += 1
        cur = os.path.join(vlib.sub("traces"), "c12cur%d.ndjson" % rounds)
        offsets = []
        with open(cur, "w") as f:
            n = 0
            for ti, (first, lines) in remaining:
                offsets.append((n + 1, n + len(lines), ti))
                f.writelines(lines)
                n += len(lines)
        found = []
        res = vlib.run_tlc("TracePrune", cfg, workers=1, env={"TRACE": cur}, timeout=1800,
                           on_scn=lambda doc: found.append(json.loads(doc)))
        last = res

        def locate(line):
            for a, b, ti in offsets:
                if a <= line <= b:
                    return ti, line - a + 1
            return None, None
        if res.ok:
            for d in found:
                ti, ln = locate(d["line"])
                devs.append((ti, ln, d["dev"]))
            break
        if res.rejected_at is None:
            raise vlib.Inconclusive("trace validation failed without a rejection line:\n" + res.output_tail)
        ti, ln = locate(res.rejected_at)
        if ti is None:
            raise vlib.Inconclusive("rejected line %s outside every trace" % res.rejected_at)
        rejections.append({"trace": ti, "line_in_trace": ln, "event": traces[ti][1][ln - 1].strip()})
        remaining = [(i, t) for i, t in remaining if i != ti]
        if len(rejections) >= max_rejections:
            break
    # one deviation per (trace, line): drop duplicates from aborted rounds
    devs = sorted(set(devs))
    return n_traces, n_events, rejections, devs, last, traces


def binding_selftest_trace(traces, skip, cfg):
    """Remove one surviving commit from one recorded `after` set of a trace TLC has just accepted
    without any deviation: TLC must now reject exactly that line."""
    for ti, (_, lines) in enumerate(traces):
        if ti in skip or len(lines) < 3:
            continue
        e = json.loads(lines[2])
        if e["op"] != "prune" or e["crashed"] or not e["objs"]["c"]:
            continue
        e["objs"]["c"] = e["objs"]["c"][1:]
        p = os.path.join(vlib.sub("traces"), "c12selftest.ndjson")
        with open(p, "w") as f:
            f.write(lines[0] + lines[1] + json.dumps(e, separators=(",", ":")) + "\n" + "".join(lines[3:]))
        res = vlib.run_tlc("TracePrune", cfg, workers=1, env={"TRACE": p}, timeout=600)
        if res.ok or res.rejected_at != 3:
            raise vlib.Inconclusive("binding self-test (trace): corrupted line 3 was not rejected exactly "
                                    "(rejected_at=%s ok=%s)" % (res.rejected_at, res.ok))
        return "corrupted after-set of one trace event rejected at exactly that line"
    return "skipped: no cleanly accepted trace with a surviving commit"


DEV_SIG = {"crash": "prune/crash/shallow-survivor", "keep": "prune/state/shallow-marks-unrelated-table"}


def run(tier, seed):
    v = vlib.Verdict(PROP, tier, seed)
    vlib.build_harness()
    vacuity_guard()
    # (A)+(B)
    scen = os.path.join(vlib.sub("scn"), "prune.ndjson")
    n_scn, states, trans, tlc_wall, nshards = generate(tier, scen)
    vlib.log("PruneGen: %d scenarios, %d states, %.1fs (%d TLC process(es))" % (n_scn, states, tlc_wall, nshards))
    dir_every = 97 if tier == "quick" else 1499
    t0 = time.time()
    out = vlib.replay(ENGINE, scen, env={"PRUNE_DIR_EVERY": str(dir_every)}, timeout=60)
    vlib.log("replayed %d scenarios in %.1fs" % (out.total, time.time() - t0))
    if out.total != n_scn and not out.errors and not out.truncated:
        raise vlib.Inconclusive("replayed %d of %d scenarios" % (out.total, n_scn))
    absorb(v, out, scen)
    bad = set([i for i, _, _ in out.failures] + [i for i, _ in out.crashes] + list(out.timeouts))
    st_replay = binding_selftest_replay(scen, bad)
    # (C)
    trace = os.path.join(vlib.sub("traces"), "prune.ndjson")
    nrep = 60 if tier == "quick" else 600
    p = vlib.run_record(ENGINE, ["--seed", str(seed), "--n", str(nrep), "--out", trace, "--dir", vlib.sub("prunerepos"),
                                 "--cli-every", "4"], timeout=2400)
    if p.returncode != 0:
        raise vlib.Inconclusive("recorder failed: " + p.stderr[-2000:])
    # a store whose key listing contradicts its own lookups (recorder event "storefault") is reported as such; the
    # specification judges the other repositories
    faults = []
    with open(trace) as f:
        lines = f.readlines()
    with open(trace, "w") as f:
        for ln in lines:
            if '"op":"storefault"' in ln or '"op": "storefault"' in ln:
                faults.append(json.loads(ln))
            else:
                f.write(ln)
    for ev in faults[:5]:
        v.violation("prune/store/listing-contradicts-lookups/%s" % ev.get("mode"),
                    dict(engine=ENGINE, mode="storefault", event=ev,
                         what="the on-disk object store lists keys it does not hold / twice: prune works from these listings"))
    cfg = "TracePrune.cfg"
    n_traces, n_events, rejections, devs, last, traces = validate(trace, cfg)
    for r in rejections:
        ev = json.loads(r["event"])
        kind = "crash" if ev.get("crashed") else ("unusable" if ev.get("unus") else "state")
        v.violation("prune/trace-rejected/%s/%s" % (ev.get("mode"), kind),
                    dict(engine=ENGINE, mode="trace", trace=[json.loads(x) for x in traces[r["trace"]][1]],
                         rejected_line=r["line_in_trace"], event=ev))
    dev_traces = set()
    for ti, ln, kind in devs:
        dev_traces.add(ti)
        v.violation(DEV_SIG.get(kind, "prune/deviation/" + str(kind)),
                    dict(engine=ENGINE, mode="trace", trace=[json.loads(x) for x in traces[ti][1]],
                         deviation_line=ln, deviation=kind))
    st_trace = binding_selftest_trace(traces, dev_traces | set(r["trace"] for r in rejections), cfg)
    modes = {}
    for _, lines in traces:
        m = json.loads(lines[0]).get("mode")
        modes[m] = modes.get(m, 0) + 1
    nontrivial = sum(c for k, c in out.classes.items() if k != "-")
    known_fail = sum(1 for _, s, _ in out.failures if s in DEV_SIG.values())
    # two-repository behaviours of System2.tla (commit / fetch / push / pull / merge / prune through the real CLI)
    from props import system2_common
    sys2cov, _ = system2_common.run(v, PROP, tier, seed)
    cov = {
        "system2_behaviours": sys2cov,
        "states": states, "transitions": trans,
        "scenarios": n_scn,
        "traces_validated_against_impl": n_traces - len(rejections),
        "trace_events": n_events,
        "traces_by_mode": modes,
        "traces_needing_named_deviation": len(dev_traces),
        "evaluations": out.total + n_traces,
        "cli_scenarios": (n_scn + dir_every - 1) // dir_every,
        "distinct_nontrivial": nontrivial + known_fail,
        "rule": "one scenario per initial state of PruneGen (DAG shape x table assignment x ref subset x absent "
                "subset, N<=%d); non-trivial = at least one commit is unreachable (something has to be removed); "
                "classes of the scenarios that passed are counted by the harness from the scenario's Must/MustNot "
                "sets; scenarios that failed with a known-finding signature are non-trivial too (they have an "
                "unreachable commit and a shallow survivor)" % (3 if tier == "quick" else 4),
        "classes": out.classes,
        "failed_scenarios_by_signature": _count(s for _, s, _ in out.failures),
        "samples": vlib.samples_from(scen, 3) + _trace_sample(traces),
        "exhaustive": True,
        "tlc": {"module": "PruneGen", "generated": trans, "distinct": states, "processes": nshards,
                "wall_s": round(tlc_wall, 1), "trace_module": "TracePrune",
                "trace_states": last.distinct if last else 0},
        "self_tests": ["vacuity (-coverage 1, every design action taken, deviation action disabled)",
                       st_replay, st_trace],
    }
    return v.finish("model_checking", cov, ASSUMPTIONS)


def _trace_sample(traces):
    for _, lines in traces:
        if len(lines) >= 3:
            return [json.loads(lines[1]), json.loads(lines[2])]
    return []


def _count(it):
    d = {}
    for x in it:
        d[x] = d.get(x, 0) + 1
    return d


def replay(path):
    with open(path) as f:
        doc = json.load(f)
    if doc.get("engine") == "system2":
        from props import system2_common
        return system2_common.replay(PROP, path, doc)
    if doc.get("mode") == "storefault":
        # the recorder builds the same repositories from the same seed
        t = os.path.join(vlib.sub("traces"), "replay.ndjson")
        p = vlib.run_record(ENGINE, ["--seed", str(doc.get("seed", 1)), "--n", "60", "--out", t, "--dir", vlib.sub("prunerepos"),
                                     "--cli-every", "4"], timeout=2400)
        if p.returncode != 0:
            raise vlib.Inconclusive("recorder failed: " + p.stderr[-2000:])
        if any('"op":"storefault"' in ln or '"op": "storefault"' in ln for ln in open(t)):
            print("VIOLATION property=%s replay=%s" % (PROP, path))
            return 1
        return 0
    if doc.get("mode") == "trace":
        ops = os.path.join(vlib.sub("traces"), "ops.ndjson")
        with open(ops, "w") as f:
            for e in doc["trace"]:
                f.write(json.dumps(e) + "\n")
        t = os.path.join(vlib.sub("traces"), "replay.ndjson")
        p = vlib.run_record(ENGINE, ["--reexec", ops, "--out", t, "--dir", vlib.sub("prunerepos")])
        if p.returncode != 0:
            raise vlib.Inconclusive("re-execution failed: " + p.stderr[-2000:])
        # no named deviation here: a replay file reports the raw behaviour
        cfg = _write_cfg("TracePrune.replay.cfg",
                         "SPECIFICATION TSpec\nCONSTANT KnownDeviations = {}\nCONSTRAINT Constr\n"
                         "POSTCONDITION Accepted\nCHECK_DEADLOCK FALSE\n")
        n_traces, n_events, rejections, devs, last, traces = validate(t, cfg)
        if rejections:
            print("VIOLATION property=%s replay=%s" % (PROP, path))
            return 1
        return 0
    scen = os.path.join(vlib.sub("scn"), "one.ndjson")
    with open(scen, "w") as f:
        f.write(json.dumps(doc["scenario"]) + "\n")
    env = {"PRUNE_DIR_EVERY": "1"} if (doc.get("detail") or {}).get("mode") == "cli" else {}
    out = vlib.replay(ENGINE, scen, nshards=1, env=env)
    if out.errors:
        raise vlib.Inconclusive(str(out.errors))
    if out.failures or out.crashes or out.timeouts:
        print("VIOLATION property=%s replay=%s" % (PROP, path))
        return 1
    return 0
