"""C09 - after fetch or push the receiver holds the full history of every updated ref.

Sync.tla states what a fetch / push does to the receiver (ref rules, HistoryComplete, Monotone) on an
abstract commit DAG; TLC enumerates history pairs (equal, ahead, behind, diverged, unrelated) x tag
states x refspec / global force x depth and exports the receiver's expected refs.  Every scenario is run
for real: a client repository (badger + sqlite) and the reference server (internal/refserver: built
from the repository's own ClosedSetsFinder / ObjectSender / ObjectReceiver / packfile), `wrgl fetch` /
`wrgl push` in-process with maximal packfile sizes 1 byte / 400 bytes / default, a sample on multi-block
tables; refs are compared with the specification's, and the projected before / after / sender states are
validated by TLC (TraceSync.tla): complete history within depth, nothing lost, objects byte-identical,
an immediately repeated run changes and transfers nothing."""
import json, os
import vlib
from props import sync_common as sc

PROP = "C09"


def run(tier, seed):
    v = vlib.Verdict(PROP, tier, seed)
    vlib.build_harness()
    res, out, scen, trace = sc.run_scenarios(tier, seed)
    n_traces, n_events, rej, owned = sc.judge(v, PROP, out, scen, trace, sc.C09_SIGS, sc.C09_CLAUSES)
    # two-repository behaviours of System2.tla (commit / fetch / push / pull / merge / prune through the real CLI)
    from props import system2_common
    sys2cov, _ = system2_common.run(v, PROP, tier, seed)
    cov = {
        "system2_behaviours": sys2cov,
        "states": res.distinct, "transitions": res.generated,
        "traces_validated_against_impl": n_traces - rej,
        "evaluations": out.total, "distinct_nontrivial": sum(c for k, c in out.classes.items()),
        "rule": "every (operation, history pair, tag states, force flags, depth) state of SyncGen is one scenario (quick: every 5th, "
                "seed-rotated); each runs the real CLI twice (the second run must be a no-op); classes = op/outcome/depth",
        "classes": out.classes, "rejections_owned_by_C10": rej - owned,
        "samples": vlib.samples_from(scen, 3),
        "tlc": {"module": "SyncGen", "generated": res.generated, "distinct": res.distinct, "wall_s": round(res.wall, 1)},
    }
    return v.finish("model_checking", cov, [
        "the server is the reference server of the harness (the real one lives in another repository); its policy is Sync.tla's",
        "authentication, retries on stream errors and wrglhub specifics are out of scope",
        "haves-per-round-trip is not reachable through the command line (fixed at 256); multi-round negotiation is exercised by C08",
    ])


def replay(path):
    with open(path) as f:
        doc = json.load(f)
    if doc.get("engine") == "system2":
        from props import system2_common
        return system2_common.replay(PROP, path, doc)
    return sc.replay_scenario(PROP, path, doc)
