"""System2.tla - TWO repositories (L local, R remote behind the reference server) under the command line.

(A) TLC checks the model exhaustively over small constants (invariants HeadsClosed, PresentClosed, Convergence;
    step properties ForwardStep = Sync!RefsForward on every step, RejectedStep, CompleteStep = Sync!HistoryComplete,
    PruneStep, AfterFetch, AfterPush).  A failure here is a problem of the model: Inconclusive, never a verdict.
(B) `tlc -simulate` behaviours (init + 14 commands) are replayed command by command through the real CLI on both
    repositories (harness/internal/system2x) and the projected state of BOTH is compared after every command.
Each property's check absorbs the failures it owns: the owner of a failure `system2/<op>/<what differs>` is
OWNER[op], unless WHAT[op] names another owner for that kind of difference."""
import json, os, re, threading, time
import vlib

# the command that failed -> the property that owns it ...
OWNER = {"init": "C09", "commit": "C01", "export": "C01", "prune": "C12", "create": "C15", "delete": "C15",
         "fetch": "C10", "push": "C10", "pull": "C10", "merge": "C10", "pushall": "C10", "pullall": "C10",
         # growth: a branch copied / renamed with its log, reset, the log as the command line prints it (C15:
         # "rename/copy carry the log along", "logs read newest-first"); `wrgl log` is owned by no listed
         # property: a deviation there is printed as a NOTE line by C10's run, never a violation
         "copy": "C15", "move": "C15", "reset": "C15", "reflog": "C15", "log": "NOTE"}
# ... unless what differs says otherwise: completeness of history / objects after a transfer is C09's,
# the content of a real merge (commit, conflicts file, a merge that never returns) is C05's
_OBJECTS = r"(L|R)\.(present-missing|present-extra|commit-parents|commit-content|objects-unreadable)|unreadable|convergence|hang.*"
_MERGED = r"merge-content|conflict-file.*|merge-file.*|L\.commit-content|L\.commit-parents|hang-progress-bar-done-after-merge"
WHAT = {"fetch": [(_OBJECTS, "C09")], "push": [(_OBJECTS, "C09")], "pushall": [(_OBJECTS, "C09")], "pullall": [(_OBJECTS, "C09")],
        "pull": [(_MERGED, "C05"), (_OBJECTS, "C09")],
        "merge": [(_MERGED, "C05"), (_OBJECTS, "C12")]}
CRASH_OWNER = "C09"   # a child that dies or hangs as a whole names no command


def owner_of(sig):
    p = sig.split("/")
    if len(p) < 3 or p[0] != "system2":
        return CRASH_OWNER
    op, what = p[1], "/".join(p[2:])
    for pat, prop in WHAT.get(op, []):
        if re.fullmatch(pat, what):
            return prop
    return OWNER.get(op, CRASH_OWNER)


def _tlc_bg(results, key, module, cfg, **kw):
    """run_tlc in a thread (vlib's run counter is not thread-safe: the caller waits until it has moved)."""
    def work():
        try:
            results[key] = vlib.run_tlc(module, cfg, **kw)
        except Exception as e:   # Inconclusive included
            results[key] = e
    before = vlib._tlc_seq[0]
    t = threading.Thread(target=work, daemon=True)
    t.start()
    t0 = time.time()
    while vlib._tlc_seq[0] == before and t.is_alive() and time.time() - t0 < 30:
        time.sleep(0.05)
    return t


def run(v, prop, tier, seed, exhaustive=None):
    """Returns (coverage dict, scenario file).  exhaustive: None = the small configuration; the larger
    configurations and the -coverage run only for C10 on the thorough tier (they do not depend on prop)."""
    quick = tier == "quick"
    n = 48 if quick else 600
    big = (not quick and prop == "C10") if exhaustive is None else exhaustive
    vlib.build_harness()
    # (A) exhaustive model checking, side by side with generation and replay
    results, threads = {}, []
    # (the model does not depend on the property: on the quick tier only C10's run pays for it)
    if not quick or prop == "C10" or exhaustive:
        threads.append(_tlc_bg(results, "mc", "System2", "System2.mc.cfg", workers=8 if quick else 6, timeout=1500, heap="6g"))
    if big:
        threads.append(_tlc_bg(results, "mc-1branch-4commits", "System2", "System2.mc1.cfg", workers=6, timeout=3000, heap="12g"))
        threads.append(_tlc_bg(results, "mc-2branches-3commits", "System2", "System2.mc2.cfg", workers=6, timeout=3000, heap="12g"))
        threads.append(_tlc_bg(results, "coverage", "System2", "System2.cov.cfg", workers=4, timeout=3000, heap="14g", coverage=True))
    # (B) behaviours
    scen = os.path.join(vlib.sub("scn"), "system2.ndjson")
    workers = 2 if quick else 6
    res = vlib.run_tlc("System2", "System2.sim.cfg", workers=workers, scn_out=scen, simulate=n // workers, depth=18,
                       seed=seed * 100 + int(prop[1:]), timeout=1500, heap="2g")     # num = behaviours per worker; every property's
    # check draws its own behaviours (they all judge every step; each absorbs what it owns)
    if res.violated or res.scn == 0:
        raise vlib.Inconclusive("System2 simulation failed:\n" + res.output_tail)
    with open(scen) as f:
        lines = sorted(set(f.readlines()))   # several workers print in any order
    with open(scen, "w") as f:
        f.writelines(lines)
    out = vlib.replay("system2", scen, timeout=300)
    if out.errors:
        raise vlib.Inconclusive(str(out.errors[:3]))
    mine = vlib.ReplayOutcome()
    for idx, sig, detail in out.failures:
        if owner_of(sig) == prop:
            mine.failures.append((idx, sig, detail))
        elif owner_of(sig) == "NOTE" and prop == "C10":
            print("NOTE system-growth: %s (scenario %s): %s" % (sig, idx, json.dumps(detail)[:600]))
    if prop == CRASH_OWNER:
        mine.crashes, mine.timeouts = out.crashes, out.timeouts
    vlib.absorb_replay(v, mine, "system2", scen, crash_sig=lambda sc, t: "system2/crash")
    for t in threads:
        t.join()
    tlc = {}
    for key, r in results.items():
        if isinstance(r, Exception):
            raise vlib.Inconclusive("System2 %s: %s" % (key, r))
        if not r.ok:
            raise vlib.Inconclusive("TLC did not succeed on System2 (%s): violated %s\n%s" % (key, r.violated, r.output_tail))
        tlc[key] = {"generated": r.generated, "distinct": r.distinct, "wall_s": round(r.wall, 1)}
        if key == "coverage":
            tlc[key]["actions_never_taken"] = sorted(set(r.coverage_zero))
    classes = dict(out.classes)
    cov = {"behaviours": out.total, "passed": out.passed, "steps_per_behaviour": 15, "states_simulated": res.generated,
           "ended_on_another_admissible_merge_base": sum(c for k, c in classes.items() if k.startswith("base-alt")),
           "multi_block_behaviours": sum(c for k, c in classes.items() if k.startswith("S100")),
           "classes": classes, "owned_failures": len(mine.failures),
           "failures_owned_elsewhere": sorted(set(s for _, s, _ in out.failures if owner_of(s) != prop)),
           "exhaustive": tlc}
    return cov, scen


def replay(prop, path, doc):
    """`bin/check --replay` of a replay file written for engine system2 (doc = the parsed file)."""
    scen = os.path.join(vlib.sub("scn"), "one.ndjson")
    with open(scen, "w") as f:
        f.write(json.dumps(doc["scenario"]) + "\n")
    out = vlib.replay("system2", scen, nshards=1, timeout=300)
    if out.errors:
        raise vlib.Inconclusive(str(out.errors))
    if out.failures or out.crashes or out.timeouts:
        print("VIOLATION property=%s replay=%s" % (prop, path))
        return 1
    return 0
