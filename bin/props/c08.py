"""C08 - negotiation picks a closed, parent-first commit set covering every want.

(A) TLC explores spec/NegotiateGen.tla: every history of 1..n commits (<= 2 parents, several roots,
    criss-cross merges) x clock (topological, reversed, all equal) x refs x want set x missing table,
    and for each the negotiations listed below; the invariant checks that the DESIGN of
    spec/Negotiate.tla (EnsureReachable, FindCommons on the shared time-ordered frontier, EnqueueWants
    with a visited set and parent-first emission, DeferWant) meets the CONTRACT (Refuse, Acks, Closed,
    ParentFirst, NoExtra, Tables, Work) for every order of the wants and of the haves.
(B) every (history, clock, refs, wants, full) is one scenario line carrying, computed by TLC, the
    ancestor sets, the reachable-from-refs set, the distance from the wants, the wants that must /
    may be refused, the work bound, and the variants to run: one round with every have set over the
    commits and one unknown hash (done and not done), two rounds with the haves split, two rounds
    with the wants split, each at depth 0..2.  The harness builds real commits, tables (present iff
    full) and refs in a real SQL ref store, runs the real ClosedSetsFinder (Process rounds,
    CommitsToSend, TablesToSend) in several orderings of wants and haves, and tests the clauses of
    the contract on the projected outputs.  Object-store reads are counted by a wrapper that cuts
    the computation off at twice the bound; a family of ladder / criss-cross histories of 10..40
    levels (21..82 commits) exercises it.
(C) seeded random histories of 15-40 commits with seeded negotiations are recorded and validated by
    spec/TraceNegotiate.tla, which computes every set itself.

Universes: quick   small = 1..3 commits, every ref set, wants <= 3, (A) under all clocks;
                   n4    = 4 commits, refs = the heads or one commit, wants <= 2, (A) under the topological clock;
           thorough small with rich two-round variants (have sets of up to two hashes in each round);
                   n4    = 4 commits, every ref set, wants <= 3, (A) under the topological clock;
                   n5    = 5 commits, refs = heads or one commit, wants <= 2, a 1-in-SLICES slice of the
                           lines chosen by VERIF_SEED (content key modulo SLICES), (A) under the topological clock.

Signatures: negotiate/work/exponential/<path-explosion|other>, negotiate/refuse/<missing|spurious>,
negotiate/acks/foreign, negotiate/closed/missing-ancestor, negotiate/order/child-before-parent,
negotiate/extra/unreachable-from-wants, negotiate/tables/extra/beyond-depth,
negotiate/tables/missing/<shared-by-wants|single-want>, negotiate/error/unexpected.

Helpers that vlib.py lacks live here (same as c11.py): per-signature expansion of a failing scenario
(absorb), trace validation with named deviations and a labelling pass (validate), flush."""
import json, os, re, threading
import vlib

PROP = "C08"
ENGINE = "negotiate"
SLICES = 4
JVMS = 3      # concurrent TLC processes (the machine is shared)

ALL_SIGS = ["negotiate/work/exponential/path-explosion", "negotiate/work/exponential/other",
            "negotiate/refuse/missing", "negotiate/refuse/spurious", "negotiate/acks/foreign",
            "negotiate/closed/missing-ancestor", "negotiate/order/child-before-parent",
            "negotiate/extra/unreachable-from-wants", "negotiate/tables/extra/beyond-depth",
            "negotiate/tables/missing/shared-by-wants", "negotiate/tables/missing/single-want",
            "negotiate/error/unexpected"]


# --------------------------------------------------------------------------- (A)+(B)

def gen_cfg(name, mode="enum", nmin=1, nc=3, refmode="all", maxw=3, rich=True, depths=(0, 1, 2), slice_=(0, 1),
            clocks_a=(1, 2, 3), ladder=(1, 1, 1)):
    d = vlib.spec_copy()
    st = lambda xs: "{" + ", ".join(str(x) for x in xs) + "}"
    with open(os.path.join(d, name), "w") as f:
        f.write("SPECIFICATION Spec\nCONSTANTS Mode = \"%s\"\n NMin = %d\n NC = %d\n RefMode = \"%s\"\n MaxW = %d\n"
                " Rich = %s\n Depths = %s\n SliceK = %d\n SliceM = %d\n ClocksA = %s\n LMin = %d\n LMax = %d\n LStep = %d\n"
                "INVARIANT Inv\nCHECK_DEADLOCK FALSE\n"
                % (mode, nmin, nc, refmode, maxw, "TRUE" if rich else "FALSE", st(depths), slice_[0], slice_[1],
                   st(clocks_a), ladder[0], ladder[1], ladder[2]))
    return name


def lines_at(path, wanted):
    out = {}
    if not wanted:
        return out
    with open(path) as f:
        for i, line in enumerate(f):
            if i in wanted:
                out[i] = line.rstrip("\n")
    return out


def focus(sc, m):
    """The scenario line reduced to the one variant and depth of a mismatch (a self-contained replay)."""
    v, d = m.get("v"), m.get("d")
    if "vs" not in sc or not v:
        return sc
    out = dict(sc)
    out["vs"] = [sc["vs"][v - 1]]
    out["ds"] = [d]
    out["dev"] = [[1, d]] if [v, d] in sc.get("dev", []) else []
    out["only"] = {"v": 1, "d": d}
    return out


def absorb(v, out, scen, stats):
    """Every distinct signature of a failing scenario line becomes its own violation, focused on the
    first negotiation that shows it."""
    need = set()
    per_sig = {}
    for idx, sig, detail in out.failures:
        for m in (detail or {}).get("mismatches", []):
            c = per_sig.get(m["sig"], 0)
            per_sig[m["sig"]] = c + 1
            if c < 30:
                need.add(idx)
    lines = lines_at(scen, need)
    for idx, sig, detail in out.failures:
        detail = detail or {}
        stats["failing_lines"] += 1
        cls = detail.get("class", "?")
        stats["failing_classes"][cls] = stats["failing_classes"].get(cls, 0) + 1
        for s, c in (detail.get("count_by_sig") or {}).items():
            stats["negotiations_missing_the_contract_by_sig"][s] = stats["negotiations_missing_the_contract_by_sig"].get(s, 0) + c
        ms = detail.get("mismatches") or [{"sig": sig}]
        for m in ms:
            stats["lines_by_sig"][m["sig"]] = stats["lines_by_sig"].get(m["sig"], 0) + 1
            if m.get("model_predicted") is False:
                stats["table_misses_not_predicted_by_the_model"] += 1
            sc = focus(json.loads(lines[idx]), m) if idx in lines else {"index": idx}
            v.pending.append((m["sig"], dict(engine=ENGINE, mode="scenario", scenario=sc, mismatch=m,
                                             all_signatures_of_line=detail.get("count_by_sig"))))
    rest = vlib.ReplayOutcome()
    rest.errors, rest.crashes, rest.timeouts = out.errors, out.crashes, out.timeouts
    vlib.absorb_replay(v, rest, ENGINE, scen)


# --------------------------------------------------------------------------- (C)

def trace_cfg(name, known, classify):
    d = vlib.spec_copy()
    ks = "{" + ", ".join('"%s"' % s for s in sorted(known)) + "}"
    with open(os.path.join(d, name), "w") as f:
        f.write("SPECIFICATION Spec\nCONSTANTS KnownDeviations = %s\n Classify = %s\nCONSTRAINT Constr\n"
                "INVARIANT Inv\nPOSTCONDITION Accepted\nCHECK_DEADLOCK FALSE\n" % (ks, "TRUE" if classify else "FALSE"))
    return name


def run_trace_tlc(cfg, lines, tag):
    cur = os.path.join(vlib.sub("traces"), "%s.ndjson" % tag)
    with open(cur, "w") as f:
        for ln in lines:
            f.write(ln if ln.endswith("\n") else ln + "\n")
    reports = []
    res = vlib.run_tlc("TraceNegotiate", cfg, workers=1, env={"TRACE": cur}, timeout=1800, heap="2g",
                       on_scn=lambda doc: reports.append(json.loads(doc)))
    return res, reports


def focus_trace(lines, k):
    """reset + commits + refs of the trace + the negotiation that holds its k-th line (1-based)."""
    keep = [ln for ln in lines[:k - 1] if re.match(r'\{"op":"(reset|commit|refs)"', ln)]
    a = k - 1
    while a > 0 and not (re.match(r'\{"op":"process"', lines[a]) and '"round":1,' in lines[a]):
        a -= 1
    b = k - 1
    while b + 1 < len(lines) and not re.match(r'\{"op":"result"', lines[b]) and \
            re.match(r'\{"op":"(process|result)"', lines[b + 1]) and '"round":1,' not in lines[b + 1]:
        b += 1
    return [json.loads(x) for x in keep + lines[a:b + 1]]


def validate(v, trace_path, known):
    """Validation by TraceNegotiate with the recorded findings as KnownDeviations.  When it rejects a
    line, a Classify pass lets the specification judge EVERY event of EVERY trace and label each
    miss.  A trace counts as validated when all its events were consumed and none got a signature
    that is not a recorded finding."""
    traces = vlib.split_traces(trace_path)
    n_events = sum(len(t[1]) for t in traces)
    offsets, flat, n = [], [], 0
    for first, lines in traces:
        offsets.append((n + 1, n + len(lines)))
        flat += lines
        n += len(lines)

    def locate(gl):
        for ti, (a, b) in enumerate(offsets):
            if a <= gl <= b:
                return ti, gl - a + 1
        raise vlib.Inconclusive("TraceNegotiate mentions line %s outside every trace" % gl)

    res, reports = run_trace_tlc(trace_cfg("TraceNegotiate.known.cfg", known, False), flat, "strict")
    mode, first_rejected = "validation", None
    if not res.ok:
        if res.rejected_at is None:
            raise vlib.Inconclusive("trace validation by TraceNegotiate failed without a rejection line:\n" + res.output_tail)
        first_rejected = res.rejected_at
        mode = "classification after rejection"
        res, reports = run_trace_tlc(trace_cfg("TraceNegotiate.classify.cfg", [], True), flat, "classify")
        if not res.ok:
            raise vlib.Inconclusive("TraceNegotiate could not label the trace rejected at line %s:\n%s"
                                    % (first_rejected, res.output_tail))
        if not any(r["line"] == first_rejected for r in reports):
            raise vlib.Inconclusive("TraceNegotiate rejected line %s but its labelling pass finds no miss there:\n%s"
                                    % (first_rejected, flat[first_rejected - 1]))
    bad, seen, misses = set(), set(), 0
    by_sig = {}
    for r in sorted(reports, key=lambda r: r["line"]):
        ti, k = locate(r["line"])
        for sig in r["sigs"]:
            misses += 1
            by_sig[sig] = by_sig.get(sig, 0) + 1
            if v._match_known(sig, None) is None:
                bad.add(ti)
            if (ti, sig) in seen:
                continue
            seen.add((ti, sig))
            lines = traces[ti][1]
            v.pending.append((sig, dict(engine=ENGINE, mode="trace", trace=focus_trace(lines, k),
                                        event=json.loads(lines[k - 1]), trace_first_line=traces[ti][0],
                                        line_in_trace=k, judged_by="TraceNegotiate " + mode)))
    return dict(n_traces=len(traces), n_events=n_events, rejected=len(bad), validated=len(traces) - len(bad),
                misses=misses, by_sig=by_sig, mode=mode, first_rejected_line=first_rejected)


def flush(v):
    """Verdict keeps replay files for its first 25 violations only: hand it one violation per distinct
    signature first, so that every signature gets its VIOLATION line and replay file."""
    seen, firsts, rest = set(), [], []
    for sig, doc in v.pending:
        (rest if sig in seen else firsts).append((sig, doc))
        seen.add(sig)
    for sig, doc in firsts + rest:
        v.violation(sig, doc)
    v.pending = []


def trace_samples(path):
    out, seen = [], set()
    with open(path) as f:
        for line in f:
            m = re.match(r'\{"op":"(\w+)"', line)
            if m and m.group(1) not in seen and m.group(1) not in ("reset", "commit"):
                seen.add(m.group(1))
                out.append(json.loads(line))
            if len(seen) == 3:
                break
    return out


def count_ops(path):
    c = {}
    with open(path) as f:
        for line in f:
            m = re.match(r'\{"op":"(\w+)"', line)
            if m:
                c[m.group(1)] = c.get(m.group(1), 0) + 1
    return c


def small_sample(sc):
    """a scenario line with its variant list cut to three (evidence samples stay readable)"""
    out = dict(sc)
    out["variants_in_line"] = len(sc.get("vs", []))
    out["vs"] = sc.get("vs", [])[:3]
    out["dev"] = sc.get("dev", [])[:3]
    if len(out.get("anc", [])) > 12:
        out["anc"] = "(%d ancestor sets)" % len(out["anc"])
        out["dist"] = "(%d distances)" % len(sc["dist"])
        out["p"] = sc["p"][:6] + ["... %d commits" % len(sc["p"])]
        out["t"] = sc["t"][:6] + ["..."]
        out["full"] = "(all %d)" % len(sc["full"])
    return out


# --------------------------------------------------------------------------- run

def universes(tier, seed):
    if tier == "quick":
        return [("small", gen_cfg("NegotiateGen.small.cfg", nmin=1, nc=3, refmode="all", maxw=3, rich=False)),
                ("n4", gen_cfg("NegotiateGen.n4.cfg", nmin=4, nc=4, refmode="some", maxw=2, rich=False, clocks_a=(1,))),
                ("ladder", gen_cfg("NegotiateGen.ladder.cfg", mode="ladder", depths=(0, 2, 25), ladder=(10, 40, 6)))]
    return [("small", gen_cfg("NegotiateGen.small.cfg", nmin=1, nc=3, refmode="all", maxw=3, rich=True)),
            ("n4", gen_cfg("NegotiateGen.n4.cfg", nmin=4, nc=4, refmode="all", maxw=3, rich=False, clocks_a=(1,))),
            ("n5", gen_cfg("NegotiateGen.n5.cfg", nmin=5, nc=5, refmode="some", maxw=2, rich=False, clocks_a=(1,),
                           slice_=(seed % SLICES, SLICES))),
            ("ladder", gen_cfg("NegotiateGen.ladder.cfg", mode="ladder", depths=(0, 1, 2, 25, 60), ladder=(10, 40, 2)))]


def run(tier, seed):
    v = vlib.Verdict(PROP, tier, seed)
    v.pending = []
    vlib.build_harness()
    known = [s for s in ALL_SIGS if v._match_known(s, None) is not None]

    stats = {"failing_lines": 0, "failing_classes": {}, "lines_by_sig": {}, "negotiations_missing_the_contract_by_sig": {},
             "table_misses_not_predicted_by_the_model": 0}
    states = transitions = lines_total = runs = dev = devhit = 0
    classes, tlc_runs, samples = {}, [], []
    # the TLC runs of the universes share the cores (at most JVMS at a time); replays follow one by one
    unis = universes(tier, seed)
    results, errors = {}, []
    sem = threading.Semaphore(JVMS)
    start = threading.Lock()
    vlib.spec_copy()

    def gen(tag, cfg):
        with sem:
            # vlib.run_tlc numbers its metadir in its first instants without a lock: start the runs one second apart
            start.acquire()
            threading.Timer(1.0, start.release).start()
            try:
                scen = os.path.join(vlib.sub("scn"), "negotiate.%s.ndjson" % tag)
                results[tag] = (scen, vlib.run_tlc("NegotiateGen", cfg, scn_out=scen, timeout=3000, heap="2g",
                                                   workers=max(4, vlib.NCPU // 2)))
            except Exception as e:   # reported from the main thread
                errors.append(e)

    ths = [threading.Thread(target=gen, args=u) for u in unis]
    for t in ths:
        t.start()
    for t in ths:
        t.join()
    if errors:
        raise errors[0]
    for tag, cfg in unis:
        scen, res = results[tag]
        vlib.require_ok(res, "NegotiateGen/" + cfg)
        if res.scn == 0:
            raise vlib.Inconclusive("NegotiateGen/%s printed no scenario" % cfg)
        states += res.distinct
        transitions += res.generated
        side = os.path.join(vlib.sub("scn"), "negotiate.%s.side" % tag)
        out = vlib.replay(ENGINE, scen, side_path=side, timeout=300)
        if out.total < res.scn and not out.truncated:      # (a scenario retried after a watchdog timeout is counted twice by vlib)
            raise vlib.Inconclusive("replayed %d of %d scenario lines of %s" % (out.total, res.scn, cfg))
        u_runs = 0
        with open(side) as f:
            for ln in f:
                d = json.loads(ln)
                u_runs += d.get("runs", 0)
                dev += d.get("dev", 0)
                devhit += d.get("devhit", 0)
        runs += u_runs
        lines_total += out.total
        tlc_runs.append({"module": "NegotiateGen", "cfg": cfg, "generated": res.generated, "distinct": res.distinct,
                         "scenario_lines": res.scn, "negotiations_run_on_real_code": u_runs, "wall_s": round(res.wall, 1)})
        for k, c in out.classes.items():
            classes[k] = classes.get(k, 0) + c
        absorb(v, out, scen, stats)
        samples += [small_sample(s) for s in vlib.samples_from(scen, 2)]

    # (C)
    trace = os.path.join(vlib.sub("traces"), "negotiate.ndjson")
    ntr, nq = (36, 10) if tier == "quick" else (360, 14)
    p = vlib.run_record(ENGINE, ["--seed", str(seed), "--n", str(ntr), "--len", str(nq), "--out", trace])
    if p.returncode != 0:
        raise vlib.Inconclusive("recorder failed: " + p.stderr[-2000:])
    ops = count_ops(trace)
    for op in ("commit", "refs", "process", "result"):
        if not ops.get(op):
            raise vlib.Inconclusive("recorded trace holds no %s event (vacuous)" % op)
    tv = validate(v, trace, known)

    flush(v)

    nontrivial = sum(c for k, c in classes.items() if k != "-") + \
        sum(c for k, c in stats["failing_classes"].items() if k != "-")
    for k, c in stats["failing_classes"].items():
        classes["(failing) " + k] = c
    cov = {
        "states": states, "transitions": transitions,
        "traces_validated_against_impl": tv["validated"],
        "trace_events": tv["n_events"], "trace_ops": ops,
        "traces_with_an_unrecorded_miss": tv["rejected"], "trace_mode": tv["mode"],
        "trace_events_missing_the_contract_by_signature": tv["by_sig"],
        "evaluations": runs + ops.get("result", 0),
        "scenario_lines": lines_total,
        "distinct_nontrivial": nontrivial,
        "rule": "one scenario line = one history x clock x refs x want set x missing table (distinct TLC states, each printed "
                "once; universes in the module docstring). Per line the real finder runs every variant (rounds/haves/done) at "
                "every depth in every ordering of wants and haves: 'evaluations' counts those real negotiations plus the "
                "negotiations of the recorded traces. distinct_nontrivial counts LINES that are not refused outright and whose "
                "history has a parent link; classes = clock class / shape / roots / number of wants",
        "classes": classes,
        "lines_with_a_mismatch": stats["failing_lines"],
        "lines_by_signature": stats["lines_by_sig"],
        "negotiations_missing_the_contract_by_signature": stats["negotiations_missing_the_contract_by_sig"],
        "model_level_counterexamples": {
            "variant_depth_pairs_where_the_code_as_written_misses_the_table_clause": dev,
            "reproduced_by_the_real_code_in_this_run": devhit,
            "real_table_misses_not_predicted_by_the_model": stats["table_misses_not_predicted_by_the_model"],
        },
        "samples": samples + trace_samples(trace),
        "exhaustive": tier == "quick",
        "tlc": tlc_runs,
    }
    return v.finish("model_checking", cov, [
        "commits are real objects in wrgl's in-memory object store (objmock) behind a read-counting wrapper; refs live in "
        "a real pkg/ref/sql store on in-memory sqlite; GetCommit/SaveCommit/TableExist are trusted",
        "every commit has a table sum of its own, so TablesToSend projects to commits; the dummy table object is never decoded",
        "'polynomial' is decided as object-store reads <= 8n^2+64n per negotiation (n commits); a computation is cut off at "
        "twice that; this is an empirical bound on the enumerated, ladder and random families, not a complexity proof",
        "the iteration order of the wants (a Go map) is not controlled: every variant is run with the wants inserted in "
        "every rotation (and reverse), which makes each order likely but not certain in one run",
        "a want that is reachable but whose table is absent may be refused (the statement only demands refusal of unreachable wants)",
        "for a listed commit that is an ancestor of an acknowledged common the table selection is not constrained from below",
        "CommitsToSend is compared by the first occurrence of each entry (equivalent for the parent-first clause); repetitions "
        "are not a violation by themselves",
        "exhaustive part: histories of <= 4 commits (quick) / <= 4 and a seed-chosen quarter of the 5-commit lines (thorough); "
        "larger histories only through ladders and seeded traces of 15-40 commits",
    ])


# --------------------------------------------------------------------------- replay

def replay(path):
    with open(path) as f:
        doc = json.load(f)
    vlib.build_harness()
    if doc.get("mode") == "trace":
        ops = os.path.join(vlib.sub("traces"), "ops.ndjson")
        with open(ops, "w") as f:
            for e in doc["trace"]:
                f.write(json.dumps(e, separators=(",", ":")) + "\n")
        t = os.path.join(vlib.sub("traces"), "replay.ndjson")
        p = vlib.run_record(ENGINE, ["--reexec", ops, "--out", t])
        if p.returncode != 0:
            raise vlib.Inconclusive("re-execution failed: " + p.stderr[-2000:])
        with open(t) as f:
            lines = f.readlines()
        res, _ = run_trace_tlc(trace_cfg("TraceNegotiate.strict.cfg", [], False), lines, "replay")
        if res.ok:
            return 0
        if res.rejected_at is None:
            raise vlib.Inconclusive("TraceNegotiate failed without a rejection line:\n" + res.output_tail)
        print("VIOLATION property=%s replay=%s" % (PROP, path))
        return 1
    scen = os.path.join(vlib.sub("scn"), "one.ndjson")
    with open(scen, "w") as f:
        f.write(json.dumps(doc["scenario"]) + "\n")
    out = vlib.replay(ENGINE, scen, nshards=1, timeout=60)
    if out.errors:
        raise vlib.Inconclusive(str(out.errors))
    if out.failures or out.crashes or out.timeouts:
        print("VIOLATION property=%s replay=%s" % (PROP, path))
        return 1
    return 0
