"""Doctor re-ingest as a table producer for C03."""
import json, os
import vlib


def table_observations(tier, seed):
    vlib.build_harness()
    scen = os.path.join(vlib.sub("scn"), "doctor.ndjson")
    i = 0
    sizes = (1, 2, 254, 255, 256, 510, 511, 700) if tier == "quick" else (1, 2, 3, 253, 254, 255, 256, 257, 509, 510, 511, 512, 765, 766, 1000)
    with open(scen, "w") as f:
        for rows in sizes:
            for dmg in ("rowscount", "pk-out-of-range", "keyed-then-keyless"):
                for kp in (0, 1, 2):
                    f.write(json.dumps({"seed": seed, "idx": i, "damage": dmg, "rows": rows, "keypos": kp}) + "\n")
                    i += 1
    side = os.path.join(vlib.sub("traces"), "doctor.side")
    out = vlib.replay("doctor", scen, side_path=side, timeout=120)
    if out.errors:
        raise vlib.Inconclusive(str(out.errors[:3]))
    p = os.path.join(vlib.sub("traces"), "doctor.tableobs.ndjson")
    with open(p, "w") as g:
        g.write('{"op":"reset"}\n')
        if os.path.exists(side):
            for line in open(side):
                if '"op":"tableobs"' in line:
                    g.write(line)
    table_observations.failures = [(idx, sig, detail, json.loads(vlib.read_line(scen, idx))) for idx, sig, detail in out.failures]
    table_observations.crashes = [(idx, t, json.loads(vlib.read_line(scen, idx))) for idx, t in out.crashes]
    return p


table_observations.failures = []
table_observations.crashes = []
