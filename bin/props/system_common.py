"""System.tla behaviours (tlc -simulate) replayed command by command through the real CLI.
Each property's check absorbs the failures of the commands it owns."""
import json, os
import vlib

OWNER = {"commit": "C01", "export": "C01", "prune": "C12", "merge": "C10", "reset": "C10", "create": "C15", "delete": "C15"}


def run(v, prop, tier, seed):
    n = 32 if tier == "quick" else 400
    raw = os.path.join(vlib.sub("scn"), "system.raw.ndjson")
    res = vlib.run_tlc("System", "System.sim.cfg", workers=4, scn_out=raw, simulate=60 if tier == "quick" else 400, depth=13,
                       seed=seed, timeout=1200, heap="2g")
    if res.violated or "Error" in res.output_tail and "No error" not in res.output_tail and res.scn == 0:
        raise vlib.Inconclusive("System simulation failed:\n" + res.output_tail)
    scen = os.path.join(vlib.sub("scn"), "system.ndjson")
    with open(raw) as f:
        lines = f.readlines()
    if not lines:
        raise vlib.Inconclusive("System simulation printed no behaviour")
    step = max(1, len(lines) // n)
    with open(scen, "w") as g:
        g.writelines(lines[(seed % step)::step][:n])
    side = os.path.join(vlib.sub("traces"), "system.side")
    out = vlib.replay("system", scen, side_path=side, timeout=300)
    if out.errors:
        raise vlib.Inconclusive(str(out.errors[:3]))
    mine = vlib.ReplayOutcome()
    for idx, sig, detail in out.failures:
        op = sig.split("/")[1] if "/" in sig else ""
        owner = OWNER.get(op)
        if sig.endswith("/logs") or sig.endswith("/log-entries"):
            owner = "C10"   # "every ref update that does happen is recorded in that ref's log with the true old and new values"
        if owner == prop:
            mine.failures.append((idx, sig, detail))
    if prop == "C01":
        mine.crashes, mine.timeouts = out.crashes, out.timeouts
    vlib.absorb_replay(v, mine, "system", scen, crash_sig=lambda sc, t: "system/crash")
    return {"behaviours": out.total, "passed": out.passed, "states_simulated": res.generated, "owned_failures": len(mine.failures)}, scen
