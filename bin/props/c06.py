"""C06 - objects round-trip through their encodings and are stored under their hash.

The specification spec/Wire.tla IS the on-disk / wire format (operators over run-length bytes).
(A) TLC checks, on every vector of spec/WireGen.tla, the model-level theorems
    Fits(v) => Dec(Enc(v)) = Ok(v), ~Fits(v) => v has no encoding (even the careless 16-bit one does not
    read back), padded packfile header = same length, Enc injective on the universe;
(B) every vector (kind, value, bytes | "err") printed by TLC is replayed on the real code (engine `wire`):
    real writer(value) = bytes, real reader(bytes) = value, re-encode = bytes, objects.Save* stores the
    object once under prefix || hash(bytes) and Get* returns it; for values that do not fit the real
    writer must return an error.
Several TLC processes (one per group of kinds) run side by side because TLC computes initial states on
one thread."""
import json, os, random, threading, time
import vlib

PROP = "C06"
ENGINE = "wire"

GROUPS = [["hdr"], ["commit"], ["block"], ["string", "time", "uintlist", "strlist", "table", "blkidx", "profile"]]


def sample_codes(seed, n):
    """n sampled 64-bit lengths (every magnitude from 2^32 up), as the integer codes WireGen expects."""
    rnd = random.Random(seed)
    codes = []
    for k in range(n):
        bits = rnd.randint(33, 64)
        val = rnd.getrandbits(bits) | (1 << (bits - 1))
        for i in range(4):
            codes.append(k * 262144 + i * 65536 + ((val >> (16 * i)) & 0xFFFF))
    return codes


def write_cfg(name, kinds, thorough, dense, codes):
    d = vlib.spec_copy()
    with open(os.path.join(d, name), "w") as f:
        f.write("SPECIFICATION Spec\nCONSTANTS\n GenKinds = {%s}\n Thorough = %s\n HdrDense = %d\n SampleCodes = {%s}\n"
                "INVARIANT Inv\nCHECK_DEADLOCK FALSE\n" % (
                    ", ".join('"%s"' % k for k in kinds), "TRUE" if thorough else "FALSE", dense,
                    ", ".join(str(c) for c in codes)))
    return name


def generate(tier, seed):
    """Runs the TLC processes; returns (scenario file, [TLCResult])."""
    thorough = tier == "thorough"
    dense = 131072 if thorough else 4096
    codes = sample_codes(seed, 2000 if thorough else 64)
    results = [None] * len(GROUPS)
    errors = []
    files = []
    threads = []

    def work(gi, kinds, cfg, out):
        try:
            res = vlib.run_tlc("WireGen", cfg, workers=2, scn_out=out, timeout=3000, heap="4g")
            if not res.ok:
                # seen once under heavy machine load (several JVMs starting at once): retry before giving up
                vlib.log("TLC failed on %s, retrying once:\n%s" % (kinds, res.output_tail[-1500:]))
                res = vlib.run_tlc("WireGen", cfg, workers=2, scn_out=out, timeout=3000, heap="4g")
            results[gi] = res
        except Exception as e:  # noqa
            errors.append(e)

    for gi, kinds in enumerate(GROUPS):
        cfg = write_cfg("WireGen.%s.%d.cfg" % (tier, gi), kinds, thorough, dense, codes if "hdr" in kinds else [])
        out = os.path.join(vlib.sub("scn"), "wire.%d.ndjson" % gi)
        files.append(out)
        th = threading.Thread(target=work, args=(gi, kinds, cfg, out))
        before = vlib._tlc_seq[0]
        th.start()
        while vlib._tlc_seq[0] == before and th.is_alive():   # run_tlc numbers its metadir first thing
            time.sleep(0.01)
        threads.append(th)
    for th in threads:
        th.join()
    if errors:
        raise errors[0] if isinstance(errors[0], vlib.Inconclusive) else vlib.Inconclusive(str(errors[0]))
    for gi, res in enumerate(results):
        vlib.require_ok(res, "WireGen %s" % GROUPS[gi])
        if res.scn == 0:
            raise vlib.Inconclusive("WireGen %s printed no vectors" % GROUPS[gi])
    scen = os.path.join(vlib.sub("scn"), "wire.ndjson")
    # interleave the groups so that every child shard gets a similar mix of cheap and costly vectors
    handles = [open(f) for f in files]
    with open(scen, "w") as out:
        live = list(handles)
        while live:
            nxt = []
            for h in live:
                line = h.readline()
                if line:
                    out.write(line)
                    nxt.append(h)
            live = nxt
    for h in handles:
        h.close()
    # vacuity guard: every kind of every group produced vectors
    seen = {}
    with open(scen) as f:
        for line in f:
            k = line[2:line.index('"', 2)]
            seen[k] = seen.get(k, 0) + 1
    missing = [k for g in GROUPS for k in g if not seen.get(k)]
    if missing:
        raise vlib.Inconclusive("WireGen generated no vector of kind(s) %s" % missing)
    vlib.log("vectors per kind: %s" % json.dumps(seen, sort_keys=True))
    return scen, results


def pick_samples(scen, want=("commit", "strlist", "block", "hdr", "table")):
    """One short vector per kind, literally as TLC printed it."""
    best = {}
    with open(scen) as f:
        for line in f:
            if len(line) > 1200:
                continue
            try:
                doc = json.loads(line)
            except Exception:
                continue
            k = doc[0]
            if k in want and doc[1] != "plain" and (k not in best or len(line) > len(best[k][0])):
                best[k] = (line, doc)
    return [best[k][1] for k in want if k in best]


def corrupt_for_demo(scen):
    """Development aid (binding demonstration): VERIF_C06_CORRUPT=<n> alters one expected byte of vector n."""
    n = os.environ.get("VERIF_C06_CORRUPT")
    if n is None:
        return
    n = int(n)
    lines = open(scen).read().split("\n")
    doc = json.loads(lines[n])
    if doc[3] == "err":
        raise vlib.Inconclusive("vector %d has no bytes to corrupt" % n)
    doc[3][-1][0] = (doc[3][-1][0] + 1) % 256
    lines[n] = json.dumps(doc, separators=(",", ":"))
    open(scen, "w").write("\n".join(lines))
    vlib.log("binding demo: corrupted the expected bytes of vector %d (%s)" % (n, doc[0]))


def absorb(v, out, scen):
    """vlib.absorb_replay re-reads the scenario file once per failure; with thousands of (known)
    failures in a 600k-line file that dominates the run, so the lines are fetched in one pass here."""
    if out.errors:
        raise vlib.Inconclusive("harness errors: %s" % out.errors[:3])
    need = set(i for i, _, _ in out.failures) | set(i for i, _ in out.crashes) | set(out.timeouts)
    lines = {}
    if need:
        with open(scen) as f:
            for i, line in enumerate(f):
                if i in need:
                    lines[i] = json.loads(line)
    for idx, sig, detail in sorted(out.failures):
        v.violation(sig, dict(engine=ENGINE, scenario=lines[idx], detail=detail))
    for idx, text in sorted(out.crashes):
        sc = lines[idx]
        v.violation("wire/%s/crash/%s" % (sc[0], sc[1]),
                    dict(engine=ENGINE, scenario=sc, detail={"crashed": True, "stderr": text[-1500:]}))
    for idx in sorted(out.timeouts):
        sc = lines[idx]
        v.violation("wire/%s/timeout/%s" % (sc[0], sc[1]), dict(engine=ENGINE, scenario=sc, detail={"timeout": True}))


def run(tier, seed):
    v = vlib.Verdict(PROP, tier, seed)
    vlib.build_harness()
    scen, results = generate(tier, seed)
    corrupt_for_demo(scen)
    out = vlib.replay(ENGINE, scen, timeout=120)
    absorb(v, out, scen)
    # encoding is a function of the value also when several goroutines encode at once (a server answering
    # several fetches re-encodes commits concurrently): the concurrent bytes must be the sequential bytes
    cscen = os.path.join(vlib.sub("scn"), "wire-conc.ndjson")
    with open(cscen, "w") as f:
        for k in range(2 if tier == "quick" else 8):
            f.write(json.dumps({"G": 8, "N": 12000 if tier == "quick" else 40000}) + "\n")
    cout = vlib.replay("wireconc", cscen, nshards=2, timeout=300, env={"GOMAXPROCS": "8"})
    vlib.absorb_replay(v, cout, "wireconc", cscen, crash_sig=lambda sc, t: "wire/concurrent-encode/crash")
    nontrivial = sum(c for k, c in out.classes.items() if k != "-")
    kinds = {}
    for k, c in out.classes.items():
        kinds[k.split(":")[0]] = kinds.get(k.split(":")[0], 0) + c
    cov = {
        "states": sum(r.distinct for r in results),
        "transitions": sum(r.generated for r in results),
        "traces_validated_against_impl": out.total,
        "evaluations": out.total,
        "distinct_nontrivial": nontrivial,
        "rule": "one vector = one initial state of WireGen (distinct states = distinct (kind, value) pairs; TLC prints each "
                "once with the specification's bytes or \"err\"); each vector is checked against the real writer, reader, "
                "re-encoder and Save*/Get*. Non-trivial = the specification's class of the vector is not \"plain\" (a string "
                "of >= 256 bytes, a row crossing 64 KiB, an oversize field, > 2 rows/parents, a multi-block table, a packfile "
                "length of more than 4 bits ...); counted from the class labels the children return for vectors that passed",
        "classes": out.classes,
        "samples": pick_samples(scen),
        "exhaustive": True,
        "failed_or_known": len(out.failures) + len(out.crashes) + len(out.timeouts),
        "tlc": [{"kinds": GROUPS[i], "vectors": r.scn, "generated": r.generated, "distinct": r.distinct,
                 "wall_s": round(r.wall, 1)} for i, r in enumerate(results)],
        "sampled_64bit_lengths": 2000 if tier == "thorough" else 64,
    }
    return v.finish("model_checking", cov, [
        "the hash function (meow, seed 0) and s2 compression are trusted primitives: the harness applies the library's own "
        "hash to the specification's bytes to obtain the expected key",
        "objects are stored in wrgl's in-memory objects store (pkg/objects/mock); key layout and content are what is checked",
        "a commit time is what the format keeps: whole seconds (|sec| within TLC's 32-bit integers) and a +-hhmm offset",
        "block-index and profile contents are abstract (structure only): hashes are 16-byte strings, floats are their 8 bytes",
        "the packfile header codec is unexported and bound with go:linkname (all lengths), plus PackfileWriter/Reader for "
        "lengths that can be materialised; a header with one redundant zero group is accepted (it denotes the same length)",
        "StrListEncoder.Encode has no error result: a panic carrying an error is taken as its refusal of an oversize cell; "
        "writers that do return an error (WriteBlockTo, Table.WriteTo, Commit.WriteTo, TableProfile.WriteTo, "
        "objline.WriteString) must return one",
    ])


def replay(path):
    with open(path) as f:
        doc = json.load(f)
    vlib.build_harness()
    scen = os.path.join(vlib.sub("scn"), "one.ndjson")
    with open(scen, "w") as f:
        f.write(json.dumps(doc["scenario"], separators=(",", ":")) + "\n")
    eng = "wireconc" if doc.get("engine") == "wireconc" else ENGINE
    out = vlib.replay(eng, scen, nshards=1, timeout=300, env={"GOMAXPROCS": "8"} if eng == "wireconc" else None)
    if out.errors:
        raise vlib.Inconclusive(str(out.errors))
    if out.failures or out.crashes or out.timeouts:
        for _, sig, _ in out.failures:
            vlib.log("still fails:", sig)
        print("VIOLATION property=%s replay=%s" % (PROP, path))
        return 1
    return 0
