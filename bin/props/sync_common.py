"""Shared pipeline of the sync engine (C09, C10)."""
import json, os
import vlib

QUICK = dict(Ops='{"fetch", "push", "merge"}', BranchSrc="{1, 2, 4, 6, 7}", BranchDst="{0, 1, 2, 4, 6}", TagSrc="{0, 2, 6}",
             TagDst="{0, 2, 4}", Depths="{0, 1}", TagSpecs='{"none", "plain", "force", "cross", "fold"}', TwinDst="{0, 1, 6}")
THOROUGH = dict(Ops='{"fetch", "push", "merge"}', BranchSrc="{1, 2, 4, 6, 7}", BranchDst="{0, 1, 2, 3, 4, 6, 7}", TagSrc="{0, 2, 4, 6}",
                TagDst="{0, 2, 4, 7}", Depths="{0, 1, 2}", TagSpecs='{"none", "plain", "force", "cross", "fold"}', TwinDst="{0, 1, 4, 6}")


def generate(tier, scen, seed, sample=None):
    consts = QUICK if tier == "quick" else THOROUGH
    fn = "SyncGen.%s.cfg" % tier
    with open(os.path.join(vlib.spec_copy(), fn), "w") as f:
        f.write("SPECIFICATION Spec\nCONSTANTS\n" + "\n".join(" %s = %s" % kv for kv in consts.items()) +
                "\nINVARIANTS RulesForward RejectionIsLocal\nCHECK_DEADLOCK FALSE\n")
    raw = scen + ".raw"
    res = vlib.run_tlc("SyncGen", fn, scn_out=raw, timeout=3000, heap="4g")
    vlib.require_ok(res, "SyncGen")
    n = 0
    packs = [0, 1, 400, 0]
    with open(raw) as f, open(scen, "w") as g:
        for i, line in enumerate(f):
            d = json.loads(line)
            # depth-limited fetches that may FOLLOW a tag (no refspec covers it) are all kept - a followed tag is
            # the one ref a fetch may put on a commit it received without its table; the rest is sampled
            risky = (d.get("op") == "fetch" and d.get("depth", 0) > 0 and d.get("mode") == "none") or \
                (d.get("twin", 0) != 0 and (i + seed) % 2 == 0) or d.get("op") == "merge" or d.get("mode") == "fold"   # (merges: few and cheap)
            if sample and (i * 7 + seed) % sample != 0 and not risky:
                continue
            d["maxpack"] = packs[i % len(packs)]
            d["rows"] = 300 if i % 9 == 0 else 3
            g.write(json.dumps(d) + "\n")
            n += 1
    os.remove(raw)
    return res, n


def run_scenarios(tier, seed):
    scen = os.path.join(vlib.sub("scn"), "sync.ndjson")
    sample = 8 if tier == "quick" else None
    if os.environ.get("VERIF_SYNC_SAMPLE"):       # development aid: 1 = every scenario of the tier's universe
        sample = int(os.environ["VERIF_SYNC_SAMPLE"])
    res, n = generate(tier, scen, seed, sample=sample)
    side = os.path.join(vlib.sub("traces"), "sync.side")
    out = vlib.replay("sync", scen, side_path=side, timeout=120)
    # library-level sessions on seeded random histories (haves per round trip 1 / 2 / 3 / 256, packfile limits)
    import random
    rng = random.Random(seed)
    ses = os.path.join(vlib.sub("scn"), "sync.sessions.ndjson")
    nses = 160 if tier == "quick" else 2000
    with open(ses, "w") as f:
        for i in range(nses):
            fetch = i % 2 == 0
            f.write(json.dumps({"seed": seed, "idx": i, "dir": "fetch" if fetch else "push", "commits": 0,
                                "hpr": rng.choice([1, 2, 3, 256]), "maxpack": rng.choice([0, 1, 300, 2000]),
                                "depth": rng.choice([0, 0, 1, 2]) if fetch else 0}) + "\n")
        # pushing own work that sits on top of shallow (table-less) fetched commits to an empty remote
        for i in range(4):
            f.write(json.dumps({"seed": seed, "idx": i, "dir": "pushshallow", "commits": 0, "hpr": 256,
                                "maxpack": [0, 300][i // 2], "depth": 0}) + "\n")
    side2 = os.path.join(vlib.sub("traces"), "sync.sessions.side")
    out2 = vlib.replay("syncsession", ses, side_path=side2, timeout=120)
    # sessions are judged through their trace events; a failed session is a C09 matter
    for idx, sig, detail in out2.failures:
        out.failures.append((idx, sig, dict(detail, case=json.loads(vlib.read_line(ses, idx)))))
    out.errors += out2.errors
    out.crashes_sessions = [(idx, t) for idx, t in out2.crashes]
    for k, c in out2.classes.items():
        out.classes["session:" + k] = c
    out.total += out2.total
    trace = os.path.join(vlib.sub("traces"), "sync.ndjson")
    with open(trace, "w") as g:
        for sd in (side, side2):
            if os.path.exists(sd):
                for line in open(sd):
                    line = line.strip()
                    if line:
                        doc = json.loads(line)
                        if doc.get("kind") == "sync":
                            for d in doc["docs"]:
                                g.write(json.dumps(d) + "\n")
    return res, out, scen, trace


C09_SIGS = ("ref-not-updated", "command-failed", "/failed")
C09_CLAUSES = {"ref-to-unknown-commit", "objects-lost", "history-incomplete", "objects-differ",
               "repeat-changed-something", "repeat-transferred-objects"}
C10_SIGS = ("ref-moved-against-rules", "rejection-not-reported")
C10_CLAUSES = {"ref-moved-backwards-or-tag-clobbered", "log-not-faithful"}


def judge(v, prop, out, scen, trace, sig_suffixes, clauses):
    if out.errors:
        raise vlib.Inconclusive("harness errors: %s" % out.errors[:3])
    mine = vlib.ReplayOutcome()
    mine.failures = [f for f in out.failures if f[1].endswith(sig_suffixes) and "session-" not in f[1]]
    for idx, sig, detail in out.failures:
        if sig.endswith(sig_suffixes) and "session-" in sig:
            v.violation(sig, dict(engine="syncsession", scenario=detail.get("case"), detail=detail))
    mine.crashes, mine.timeouts = out.crashes, out.timeouts
    vlib.absorb_replay(v, mine, "sync", scen, crash_sig=lambda sc, t: "sync/crash")
    if prop == "C09":
        # a client session that dies (a panic in the session code) is a failed transfer
        for idx, text in getattr(out, "crashes_sessions", []):
            v.violation("sync/session/crash", dict(engine="syncsession", scenario={"session_index": idx},
                                                   detail={"crashed": True, "stderr": text[-1500:]}))
    n_traces, n_events, rejections, last = vlib.validate_traces("TraceSync", "TraceSync.cfg", trace, max_rejections=30)
    owned = 0
    for r in rejections:
        if r["clause"] not in clauses:
            continue
        owned += 1
        ev = json.loads(r["event"])
        small = {k: ev[k] for k in ("kind", "depth", "forced", "before", "after", "sender", "logs", "differs", "repeat", "ok")}
        scn = None
        try:
            scn = json.loads(ev.get("src") or "null")
        except ValueError:
            pass
        if isinstance(scn, dict) and "dir" in scn and "op" not in scn:
            scn = None    # a library session: re-run through the check
        v.violation("sync/%s/trace-%s" % (ev.get("kind"), r["clause"]),
                    dict(engine="sync", mode="trace", clause=r["clause"], event=small, scenario=scn))
    return n_traces, n_events, len(rejections), owned


def replay_scenario(prop, path, doc):
    """Re-runs the scenario of a replay file; its events are judged by TraceSync again."""
    scn = doc.get("scenario")
    if not scn:
        raise vlib.Inconclusive("trace finding without a scenario: rerun `bin/check %s`" % prop)
    scen = os.path.join(vlib.sub("scn"), "one.ndjson")
    with open(scen, "w") as f:
        f.write(json.dumps(scn) + "\n")
    side = os.path.join(vlib.sub("traces"), "one.side")
    out = vlib.replay(doc.get("engine", "sync"), scen, nshards=1, timeout=300, side_path=side)
    if out.errors:
        raise vlib.Inconclusive(str(out.errors))
    bad = bool(out.failures or out.crashes or out.timeouts)
    trace = os.path.join(vlib.sub("traces"), "one.ndjson")
    n = 0
    with open(trace, "w") as g:
        if os.path.exists(side):
            for line in open(side):
                line = line.strip()
                if line:
                    d = json.loads(line)
                    if d.get("kind") == "sync":
                        for e in d["docs"]:
                            g.write(json.dumps(e) + "\n")
                            n += 1
    if n:
        _, _, rejections, _ = vlib.validate_traces("TraceSync", "TraceSync.cfg", trace, max_rejections=5)
        bad = bad or bool(rejections)
    if bad:
        print("VIOLATION property=%s replay=%s" % (prop, path))
        return 1
    return 0
