"""Engine `remotecfg`: the part of wrgl that CONFIGURES synchronisation and moves refs in bulk -
`wrgl remote` (add / remove / rename / set-url / set-branches / show / get-url) and `wrgl config`
(set / add / unset [--all] / replace-all / rename-section / get, value patterns) on remote.* and
branch.* - specified in spec/RemoteCfg.tla and bound to the REAL command line.

(A) TLC explores spec/RemoteCfgGen.tla; every generated transition is checked against
    RemoteCfg!StepOK (rename / remove touch exactly the refs of the named remote, fetch destinations
    follow a rename, other sections never change, no remote-tracking ref is orphaned by a remote
    command) and Parse(Str(r)) = r holds over the refspec universe (ASSUME RoundTrip);
(B) every transition (cover under VIEW) is replayed with its path through the real CLI
    (harness/internal/remotecfg, commands in a worker subprocess because they leave through os.Exit);
    configuration (as pkg/conf reads the file), the whole ref store with logs, and the fetch map
    (real Refspec.DstForRef of every configured fetch refspec) are compared after EVERY command;
    one scenario per refspec text of the universe compares parser, printer and matching tables;
(C) seeded longer command sequences are recorded from the real CLI and validated by
    spec/TraceRemoteCfg.tla.

run(v, prop, tier, seed) absorbs into verdict v the deviations that property `prop` owns (OWNER):
    refs moved / deleted / kept by rename, remove (ref store as a map from EXACT names)   -> C15
    refspec round trip, fetch refspecs, which refs a configured fetch would update        -> C10
    pure configuration-file semantics that no listed property covers                      -> SYS,
      printed as `NOTE system-growth: <signature>` lines, never a violation of a listed property.
A deviation is a recorded finding only if the real code did exactly what the named as-coded outcome
of the specification (RemoteCfg!Dev, FetchMapAsCoded, ParseAsCoded) says; its signature then ends in
that name and known_findings.d/remotecfg.json lists it."""
import json, os, threading, time
import vlib

ENGINE = "remotecfg"

# part of a signature remotecfg/<op>/<class>/<part>[/<deviation>] -> owning property
OWNER = {"refs": "C15", "fetch": "C10", "fetchmap": "C10", "refspec": "C10",
         "config": "SYS", "ok": "SYS", "out": "SYS", "crash": "SYS", "no-outcome": "SYS"}
CRASH_OWNER = "C15"   # a replay child that dies or hangs (never seen) is reported once, here


def owner_of(sig):
    p = sig.split("/")
    if len(p) < 2 or p[0] != ENGINE:
        return CRASH_OWNER
    if p[1] in ("fetchmap", "refspec"):
        return OWNER[p[1]]
    if len(p) >= 4:
        if p[1] == "show" and p[3] == "out":
            return "C10"     # the "tracked" marks: which refs a configured fetch updates
        return OWNER.get(p[3], "SYS")
    return CRASH_OWNER


TIERS = {
    #           D  Small   traces  len  recorder processes
    "quick":    (1, "FALSE", 16,    40,  4),
    "thorough": (2, "FALSE", 320,   60,  8),
}


def _cfg(name, d, small, mode):
    sd = vlib.spec_copy()
    with open(os.path.join(sd, name), "w") as f:
        f.write("SPECIFICATION Spec\nCONSTANTS D = %d\n Small = %s\n Mode = \"%s\"\n LogCap = 2\n"
                "VIEW View\nINVARIANT Inv\nCHECK_DEADLOCK FALSE\n" % (d, small, mode))
    return name


def _trace_cfg():
    sd = vlib.spec_copy()
    name = "TraceRemoteCfg.cfg"
    with open(os.path.join(sd, name), "w") as f:
        f.write("SPECIFICATION Spec\nCONSTRAINT Constr\nPOSTCONDITION Accepted\nCHECK_DEADLOCK FALSE\n")
    return name


def split_traces(path):
    """[(first line number, [lines])] - a trace starts at a reset line (the operation is a tuple here,
    so vlib.split_traces does not see the reset lines)."""
    traces = []
    with open(path) as f:
        for no, line in enumerate(f, 1):
            if line.startswith('{"op":["reset"') or not traces:
                traces.append((no, []))
            traces[-1][1].append(line)
    return traces


def validate(trace_path, tag, max_rejections=8):
    """TraceRemoteCfg over one concatenated trace file.  Returns (n_traces, n_events, devs, rejections):
    devs = [(signature, line of the trace file)] of lines that only a NAMED as-coded outcome explains
    (consumed, validation continues), rejections = [dict(sig, trace, line_in_trace, event)] (the trace
    is cut out and the rest validated again)."""
    traces = split_traces(trace_path)
    n_traces, n_events = len(traces), sum(len(t[1]) for t in traces)
    devs, rejections = [], []
    remaining = traces
    rounds = 0
    cfg = _trace_cfg()
    while remaining:
        rounds += 1
        cur = os.path.join(vlib.sub("traces"), "rcfg-%s-%d.ndjson" % (tag, rounds))
        offsets, n = [], 0
        with open(cur, "w") as f:
            for first, lines in remaining:
                offsets.append((n + 1, n + len(lines)))
                f.writelines(lines)
                n += len(lines)
        found = []
        res = vlib.run_tlc("TraceRemoteCfg", cfg, workers=1, env={"TRACE": cur}, timeout=1500, heap="2g",
                           on_scn=lambda doc: found.append(json.loads(doc)))

        def place(line):
            for ti, (a, b) in enumerate(offsets):
                if a <= line <= b:
                    return ti, remaining[ti][0] + line - a
            raise vlib.Inconclusive("line %s outside every trace" % line)

        if res.ok:
            devs += [(d["dev"], place(d["line"])[1]) for d in found]
            break
        if res.rejected_at is None:
            raise vlib.Inconclusive("trace validation failed without a rejection line:\n" + res.output_tail)
        hit, _ = place(res.rejected_at)
        # deviations consumed in the rejected trace before the rejection stay reported; those of the
        # other traces are printed again by the next round
        devs += [(d["dev"], place(d["line"])[1]) for d in found if place(d["line"])[0] == hit]
        first, lines = remaining[hit]
        k = res.rejected_at - offsets[hit][0]
        rejections.append({"sig": res.broken.get(res.rejected_at, "remotecfg/trace/rejected"), "trace": lines,
                           "trace_first_line": first, "line_in_trace": k + 1, "event": lines[k].strip()})
        remaining = remaining[:hit] + remaining[hit + 1:]
        if len(rejections) >= max_rejections:
            break
    return n_traces, n_events, sorted(set(devs)), rejections


_cache = {}


def _explore(tier, seed):
    """Everything that does not depend on the property: TLC runs, replay, recording, validation."""
    key = (tier, seed, vlib.REPO)
    if key in _cache:
        return _cache[key]
    d, small, ntr, ln, nproc = TIERS[tier]
    vlib.build_harness()
    vlib.spec_copy()
    out = {}
    errs = []

    def guarded(fn):
        def run():
            try:
                fn()
            except BaseException as e:   # re-raised in the main thread
                errs.append(e)
        return run

    def behaviours():
        scen = os.path.join(vlib.sub("scn"), "remotecfg.ndjson")
        res = vlib.run_tlc("RemoteCfgGen", _cfg("RemoteCfgGen.beh.cfg", d, small, "beh"), scn_out=scen, timeout=2400,
                           heap="6g", workers=max(4, vlib.NCPU - 4))
        vlib.require_ok(res, "RemoteCfgGen (behaviours)")
        out["beh"] = (res, scen, vlib.replay(ENGINE, scen, timeout=60))

    def refspecs():
        scen = os.path.join(vlib.sub("scn"), "remotecfg-refspec.ndjson")
        res = vlib.run_tlc("RemoteCfgGen", _cfg("RemoteCfgGen.rs.cfg", 0, small, "rs"), scn_out=scen, timeout=600,
                           heap="1g", workers=2)
        vlib.require_ok(res, "RemoteCfgGen (refspec universe)")
        out["rs"] = (res, scen, vlib.replay(ENGINE, scen, nshards=2, timeout=60))

    def traces(k):
        def run():
            path = os.path.join(vlib.sub("traces"), "remotecfg-%d.ndjson" % k)
            n = ntr // nproc + (1 if k < ntr % nproc else 0)
            p = vlib.run_record(ENGINE, ["--seed", str(seed * 1000 + k), "--n", str(n), "--len", str(ln), "--out", path])
            if p.returncode != 0:
                raise vlib.Inconclusive("recorder failed: " + p.stderr[-2000:])
            out["tr%d" % k] = (path, validate(path, "p%d" % k))
        return run

    jobs = [behaviours, refspecs] + [traces(k) for k in range(nproc)]
    ths = []
    for j in jobs:
        t = threading.Thread(target=guarded(j))
        seq = vlib._tlc_seq[0]
        t.start()
        ths.append(t)
        # vlib's TLC run counter is not thread-safe: let each job take its number first
        for _ in range(100):
            if vlib._tlc_seq[0] != seq or not t.is_alive():
                break
            time.sleep(0.05)
    for t in ths:
        t.join()
    if errs:
        raise errs[0]
    _cache[key] = (out, nproc)
    return _cache[key]


def _lines(path, wanted):
    got = {}
    if not wanted:
        return got
    with open(path) as f:
        for i, line in enumerate(f):
            if i in wanted:
                got[i] = line
                if len(got) == len(wanted):
                    break
    return got


def run(v, prop, tier, seed):
    out, nproc = _explore(tier, seed)
    notes = {}          # SYS signature -> count
    mine = []           # (sig, source, index/line, detail)
    for src in ("beh", "rs"):
        res, scen, rep = out[src]
        if rep.errors:
            raise vlib.Inconclusive("harness errors: %s" % rep.errors[:3])
        for idx, sig, detail in rep.failures:
            sigs = (detail or {}).get("sigs") or [sig]
            for s in sigs:
                o = owner_of(s)
                if o == "SYS":
                    notes[s] = notes.get(s, 0) + 1
                elif o == prop:
                    mine.append((s, src, idx, detail))
        if prop == CRASH_OWNER:
            for idx, text in rep.crashes:
                mine.append(("remotecfg/child-crash", src, idx, {"crashed": True, "stderr": text[-1500:]}))
            for idx in rep.timeouts:
                mine.append(("remotecfg/child-timeout", src, idx, {"timeout": True}))
    # one deviation of every distinct signature first (a verdict keeps replay files for the first 25 only)
    seen, firsts, rest = set(), [], []
    for m in mine:
        (rest if m[0] in seen else firsts).append(m)
        seen.add(m[0])
    mine = firsts + rest
    # known findings are only counted; the scenario text is fetched for the others (one pass per file)
    need = {"beh": set(), "rs": set()}
    fresh = 0
    for s, src, idx, detail in mine:
        if v._match_known(s, None) is None and fresh < 40:
            need[src].add(idx)
            fresh += 1
    text = {src: _lines(out[src][1], need[src]) for src in need}
    for s, src, idx, detail in mine:
        line = text[src].get(idx)
        v.violation(s, dict(engine=ENGINE, mode="scenario", scenario=json.loads(line) if line else None, detail=detail))
    n_traces = n_events = 0
    rejected = 0
    for k in range(nproc):
        path, (nt, ne, devs, rejections) = out["tr%d" % k]
        n_traces += nt
        n_events += ne
        for s, ln in devs:
            o = owner_of(s)
            if o == "SYS":
                notes[s] = notes.get(s, 0) + 1
            elif o == prop:
                v.violation(s, dict(engine=ENGINE, mode="remotecfg-trace-deviation", trace_file_line=ln,
                                    detail="the recorded line is explained only by the named as-coded outcome"))
        for r in rejections:
            rejected += 1
            o = owner_of(r["sig"])
            if o == "SYS":
                notes[r["sig"]] = notes.get(r["sig"], 0) + 1
            elif o == prop:
                v.violation(r["sig"], dict(engine=ENGINE, mode="remotecfg-trace", trace=[json.loads(x) for x in r["trace"][:r["line_in_trace"]]],
                                           rejected_line=r["line_in_trace"], event=json.loads(r["event"])))
    if prop == CRASH_OWNER or os.environ.get("REMOTECFG_NOTES"):
        for s in sorted(notes):
            print("NOTE system-growth: %s   [%d scenario(s) / trace line(s)]" % (s, notes[s]))
    bres, bscen, brep = out["beh"]
    rres, rscen, rrep = out["rs"]
    classes = dict(brep.classes)
    for k, c in rrep.classes.items():
        classes[k] = classes.get(k, 0) + c
    cov = {
        "states": bres.distinct, "transitions": bres.generated,
        "scenarios_replayed": brep.total + rrep.total, "passed": brep.passed + rrep.passed,
        "refspec_texts": rrep.total,
        "traces_validated_against_impl": n_traces - rejected, "trace_events": n_events,
        "owned_deviations": len(mine), "system_growth_notes": len(notes),
        "classes": classes,
        "tlc": {"module": "RemoteCfgGen", "generated": bres.generated, "distinct": bres.distinct, "depth": bres.depth,
                "wall_s": round(bres.wall, 1)},
    }
    return cov, bscen
