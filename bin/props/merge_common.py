"""Shared pieces of the merge engine (C05; observations for C03; yields for C16)."""
import json, os
import vlib

QUICK = dict(KPoss="{1, 2}", ColOps='{"none", "addC1", "addC0", "remB", "remA", "swap"}',
             States1='{"same", "removed", "A1", "A2", "B1", "X"}', States2='{"same", "A1"}', States3='{"absent", "add1"}')
THOROUGH = dict(KPoss="{1, 2, 3}", ColOps='{"none", "addC1", "addC2", "addC0", "remB", "remA", "swap", "renB"}',
                States1='{"same", "removed", "A1", "A2", "B1", "A1B1", "X"}', States2='{"same", "removed", "A1", "B1"}',
                States3='{"absent", "add1", "add2"}')
# N = 3: the SMALL universe for the first two branches, row operations only for the third
TRIPLE = dict(KPoss="{1, 2}", ColOps='{"none", "addC1", "remB"}',
              States1='{"same", "removed", "A1", "B1"}', States2='{"same", "A1"}', States3='{"absent", "add1"}', ThirdOps='{"none", "addC1"}')
TRIPLEQ = dict(KPoss="{1, 2}", ColOps='{"none", "addC1"}',
               States1='{"same", "removed", "A1"}', States2='{"same", "A1"}', States3='{"absent", "add1"}', ThirdOps='{"none"}')
SMALL = dict(KPoss="{1, 2}", ColOps='{"none", "addC1", "remB"}',
             States1='{"same", "removed", "A1", "B1"}', States2='{"same", "A1"}', States3='{"absent", "add1"}')


def cfg(name, consts):
    fn = "MergeGen.%s.cfg" % name
    consts = dict(consts)
    consts.setdefault("ThirdOps", "{}")
    with open(os.path.join(vlib.spec_copy(), fn), "w") as f:
        f.write("SPECIFICATION Spec\nCONSTANTS\n" + "\n".join(" %s = %s" % kv for kv in consts.items()) +
                "\nINVARIANT Laws\nCHECK_DEADLOCK FALSE\n")
    return fn


def generate(name, consts, scen, commit_every=5, scale_every=0, scale=130, keep=None):
    """TLC enumerates the pairs, checks the laws and exports the expectations; the driver adds
    the configuration dimensions (commit path, cluster scaling to multi-block tables)."""
    raw = scen + ".raw"
    res = vlib.run_tlc("MergeGen", cfg(name, consts), scn_out=raw, timeout=3000, heap="4g")
    vlib.require_ok(res, "MergeGen/" + name)
    n = 0
    with open(raw) as f, open(scen, "w") as g:
        for i, line in enumerate(f):
            if keep is not None and not keep(i):
                continue
            d = json.loads(line)
            if commit_every and i % commit_every == 0:
                d["commit"] = True
            if scale_every and i % scale_every == 1:
                d["S"] = scale
                d["commit"] = True
            g.write(json.dumps(d) + "\n")
            n += 1
    os.remove(raw)
    return res, n


def table_observations(tier, seed):
    """For C03: tables produced by committing merge results."""
    vlib.build_harness()
    scen = os.path.join(vlib.sub("scn"), "merge-obs.ndjson")
    generate("small", SMALL, scen, commit_every=3, scale_every=40)
    side = os.path.join(vlib.sub("traces"), "merge-obs.side")
    out = vlib.replay("merge", scen, side_path=side, timeout=120)
    if out.errors:
        raise vlib.Inconclusive(str(out.errors[:3]))
    p = os.path.join(vlib.sub("traces"), "merge.tableobs.ndjson")
    with open(p, "w") as g:
        g.write('{"op":"reset"}\n')
        if os.path.exists(side):
            for line in open(side):
                if '"op":"tableobs"' in line:
                    g.write(line)
    return p


def under_yields(v, tier, seed):
    """For C16: the merge scenarios replayed with seeded yields at every channel send."""
    scen = os.path.join(vlib.sub("scn"), "merge-yield.ndjson")
    generate("small", SMALL, scen, commit_every=7)
    # three branches: the order in which the three differs finish is part of the schedule
    scen3 = os.path.join(vlib.sub("scn"), "merge3-yield.ndjson")
    generate("tripleq", TRIPLEQ, scen3, commit_every=0, keep=lambda i: i % (4 if tier == "quick" else 1) == seed % (4 if tier == "quick" else 1))
    with open(scen, "a") as f, open(scen3) as g:
        f.write(g.read())
    cov = {}
    for procs, ypm in (((2, 400),) if tier == "quick" else ((2, 400), (16, 150), (1, 300))):
        o = vlib.replay("merge", scen, env={"VERIF_YIELD": str(ypm), "VERIF_SEED": str(seed), "GOMAXPROCS": str(procs)}, timeout=120)
        # C16 asks for the sequential outcome under every schedule: a deviation from the specification that the
        # sequential run shows as well (the open C05 finding) is not a schedule matter and is reported by C05 only
        o.failures = [f for f in o.failures if "untouched-base-row-in-base-layout" not in f[1]]
        vlib.absorb_replay(v, o, "merge", scen, crash_sig=lambda sc, t: "merge-under-yield/crash",
                           extra={"yield_per_mille": ypm, "gomaxprocs": procs})
        cov["merge procs=%d yield=%d" % (procs, ypm)] = {"pairs": o.total, "ok": o.passed}
    return cov
