"""C03 - every stored table is structurally sound and its indices agree with its rows.

The oracle is Objects!TableWellFormed (spec/Objects.tla); TLC evaluates it with B = 255 on the
projection of every REAL table the producers stored (TraceTable.tla):
  * ingest: the small-universe scenarios of IngestGen (padding rows put duplicates / empty keys on
    either side of a real block boundary) and seeded real-scale tables with boundary sizes
    0,1,254,255,256,509,510,511,... under run sizes / delimiters / worker counts;
  * further producers (merge result, object receiver, doctor re-ingest) add their observations
    when their engines run (see producers())."""
import json, os
import vlib
from props import ingest_common as ic

PROP = "C03"


def producers():
    """Other engines that can contribute table observations: (module name, function)."""
    out = []
    for name in ("merge_common", "transfer_common", "doctor_common"):
        try:
            m = __import__("props." + name, fromlist=["table_observations"])
            if hasattr(m, "table_observations"):
                out.append((name, m.table_observations))
        except ModuleNotFoundError:
            pass
    return out


def run(tier, seed):
    v = vlib.Verdict(PROP, tier, seed)
    vlib.build_harness()
    traces = []
    # ingest, small universe (quick cfg in both tiers: the structure is exercised by the padding)
    res, out, scen, obs_small = ic.small_universe(v, "quick")
    if out.errors:
        raise vlib.Inconclusive(str(out.errors[:3]))
    if obs_small:
        traces.append(("ingest-small", obs_small[0]))
    # ingest, real scale
    ncases, variants = (140, 4) if tier == "quick" else (1000, 6)
    rout, cases, files = ic.real_scale(seed, ncases, variants, 8 if tier == "quick" else 16, prefix="c03")
    if rout.errors:
        raise vlib.Inconclusive(str(rout.errors[:3]))
    if "tableobs" in files:
        traces.append(("ingest-real", files["tableobs"][0]))
    for name, fn in producers():
        p = fn(tier, seed)
        if p:
            traces.append((name, p))
        # a producer may also report direct failures (e.g. the doctor losing rows or failing to re-ingest)
        for idx, sig, detail, sc in getattr(fn, "failures", []):
            v.violation("table/" + sig, dict(engine=name, scenario=sc, detail=detail))
        for idx, text, sc in getattr(fn, "crashes", []):
            v.violation("table/%s/crash" % name, dict(engine=name, scenario=sc, detail=text[-1500:]))
    total = bad = 0
    per = {}
    for name, path in traces:
        n, b = ic.validate_table_trace(v, path)
        per[name] = {"tables": n, "rejected": b}
        total += n
        bad += b
    samples = []
    for name, path in traces[:2]:
        for d in vlib.samples_from(path, 2):
            if d.get("op") == "tableobs":
                d = dict(d)
                for k in ("blocks", "blkidx"):
                    d[k] = "elided (%d blocks)" % len(d.get(k, []))
                d["src"] = d.get("src", "")[:200]
                samples.append(d)
    cov = {
        "states": total + 1, "transitions": total,
        "traces_validated_against_impl": total - bad,
        "evaluations": total,
        "distinct_nontrivial": total,
        "rule": "one evaluation = one real stored table projected by tbl.Observe and judged by TLC (TraceTable.tla, "
                "B=255); tables are distinct by construction (different scenario / case / configuration); "
                "non-trivial = every table (0-row tables included: they must have 0 blocks)",
        "per_producer": per,
        "samples": samples or [{"note": "no tables"}],
        "tlc_small_model": {"generated": res.generated, "distinct": res.distinct},
    }
    return v.finish("model_checking", cov, [
        "key and row hashes are recomputed with the repository's own hash and string-list encoding (trusted primitives)",
        "ranks are computed by the harness with byte-wise comparison of the key cells",
    ])


def replay(path):
    with open(path) as f:
        doc = json.load(f)
    src = doc.get("src", "")
    try:
        sc = json.loads(src)
    except Exception:
        raise vlib.Inconclusive("observation without replayable source")
    if "in" in sc and "sh" in sc:
        scen = os.path.join(vlib.sub("scn"), "one.ndjson")
        with open(scen, "w") as f:
            f.write(json.dumps(sc) + "\n")
        side = os.path.join(vlib.sub("traces"), "one.side")
        # force the observation: scenario index 0 always observes ((0*7+3)%13 != 0) -> use --force-obs env
        out = vlib.replay("ingest", scen, nshards=1, side_path=side, env={"VERIF_FORCE_OBS": "1"})
        files = ic.split_side(side, "one")
        v = vlib.Verdict(PROP, "quick", doc.get("seed", 1))
        v.known_defs = []
        if "tableobs" in files:
            ic.validate_table_trace(v, files["tableobs"][0])
        if v.violations or out.failures or out.crashes:
            print("VIOLATION property=%s replay=%s" % (PROP, path))
            return 1
        return 0
    if "damage" in sc:
        scen = os.path.join(vlib.sub("scn"), "one.ndjson")
        with open(scen, "w") as f:
            f.write(json.dumps(sc) + "\n")
        side = os.path.join(vlib.sub("traces"), "one.side")
        out = vlib.replay("doctor", scen, nshards=1, side_path=side)
        files = ic.split_side(side, "one")
        v = vlib.Verdict(PROP, "quick", doc.get("seed", 1))
        v.known_defs = []
        if "tableobs" in files:
            ic.validate_table_trace(v, files["tableobs"][0])
        if v.violations or out.failures or out.crashes:
            print("VIOLATION property=%s replay=%s" % (PROP, path))
            return 1
        return 0
    raise vlib.Inconclusive("real-scale observation: rerun `bin/check C03` with VERIF_SEED=%s" % doc.get("seed"))
