"""C11 - ancestry queries and merge-base selection agree with the commit graph.

(A) TLC explores spec/GraphGen.tla: every history of 4 commits (<= 2 parents in both orders, plus
    the 3-parent octopus shapes) x every assignment of times {1,2,3}; every history of 5 commits
    under three clocks (quick) and under every assignment of times {1,2,3} (thorough).  The
    invariant ModelOK checks on each of them that the modelled frontier queue (walk, ancestor test
    by exhaustion) meets the contract of spec/Graph.tla.  The transcription SeekAsCoded of
    ref.SeekCommonAncestor is evaluated too: the tuples on which it leaves the contract are
    exported as model-level counterexamples (never a verdict by themselves).
(B) every history is one scenario line carrying, computed by TLC, the ancestor sets and per set of
    merge inputs AllowedBases/CommonAnc; the harness builds real commits and asks the real
    ref.IsAncestorOf (all pairs), CommitsQueue.PopInsertParents walks (every start) and
    ref.SeekCommonAncestor (every tuple of 2..K commits, all orders and repetitions).
(C) seeded random histories of 20-60 commits are queried on the real code and the recorded trace
    is validated by spec/TraceGraph.tla, which computes ancestry and allowed bases itself.

Signatures: graph/isanc/<false-negative|false-positive|error>/clock=<mono|tie|skew|none>,
graph/walk/<duplicate|missing|foreign|endless|error>/clock=..., graph/seek/<kind>/heads=<1|2|3+> with
kind in missing-but-exists, found-but-none, not-input-base, not-common-ancestor, foreign.

Helpers that vlib.py lacks live here: per-signature expansion of one failing scenario (absorb), a
trace validation that collects the lines TraceGraph prints for the named deviation and falls back
to a labelling pass (validate), and an ordering of violations so that each distinct signature gets
its replay file (flush)."""
import json, os, re
import vlib

PROP = "C11"
ENGINE = "graph"

SEEK_KINDS = ["missing-but-exists", "foreign", "found-but-none", "not-input-base", "not-common-ancestor"]
SEEK_HEADS = ["heads=1", "heads=2", "heads=3+"]
ALL_SEEK_SIGS = ["graph/seek/%s/%s" % (k, h) for k in SEEK_KINDS for h in SEEK_HEADS]


# --------------------------------------------------------------------------- (A)+(B)

def gen_cfg(name, nc, k, ordered, octopus=True, coded=True, allclocks=True):
    d = vlib.spec_copy()
    b = lambda x: "TRUE" if x else "FALSE"
    with open(os.path.join(d, name), "w") as f:
        f.write("SPECIFICATION Spec\nCONSTANTS NC = %d\n K = %d\n Ordered = %s\n Octopus = %s\n WithCoded = %s\n"
                " AllClocks = %s\nINVARIANT Inv\nCHECK_DEADLOCK FALSE\n"
                % (nc, k, b(ordered), b(octopus), b(coded), b(allclocks)))
    return name


def lines_at(path, wanted):
    """One pass over a scenario file -> {index: line} for the wanted indices."""
    out = {}
    if not wanted:
        return out
    with open(path) as f:
        for i, line in enumerate(f):
            if i in wanted:
                out[i] = line.rstrip("\n")
    return out


def absorb(v, out, scen, stats):
    """Every distinct signature of a failing scenario becomes its own violation, focused on the
    first query that shows it (a scenario may hold a recorded finding AND something new)."""
    per_sig = {}
    need = set()
    for idx, sig, detail in out.failures:
        for m in (detail or {}).get("mismatches", []):
            c = per_sig.get(m["sig"], 0)
            per_sig[m["sig"]] = c + 1
            if c < 30:
                need.add(idx)
    lines = lines_at(scen, need)
    for idx, sig, detail in out.failures:
        detail = detail or {}
        stats["model_dev_tuples"] += detail.get("model_dev_tuples", 0)
        stats["model_dev_reproduced"] += detail.get("model_dev_reproduced", 0)
        stats["failing_scenarios"] += 1
        cls = detail.get("class", "?")
        stats["failing_classes"][cls] = stats["failing_classes"].get(cls, 0) + 1
        ms = detail.get("mismatches", [])
        if not ms:
            ms = [{"sig": sig, "op": "?", "args": []}]
        for m in ms:
            stats["mismatch_scenarios_by_sig"][m["sig"]] = stats["mismatch_scenarios_by_sig"].get(m["sig"], 0) + 1
            if m.get("model_predicted") is False:
                stats["real_deviation_not_in_model"] += 1
            sc = json.loads(lines[idx]) if idx in lines else {"index": idx}
            if "p" in sc:
                sc["only"] = {"op": m.get("op"), "args": m.get("args")}
            v.pending.append((m["sig"], dict(engine=ENGINE, mode="scenario", scenario=sc, mismatch=m,
                                             all_signatures_of_scenario=detail.get("count_by_sig"))))
    rest = vlib.ReplayOutcome()
    rest.errors, rest.crashes, rest.timeouts = out.errors, out.crashes, out.timeouts
    vlib.absorb_replay(v, rest, ENGINE, scen)


# --------------------------------------------------------------------------- (C)

def trace_cfg(name, known, classify):
    d = vlib.spec_copy()
    ks = "{" + ", ".join('"%s"' % s for s in sorted(known)) + "}"
    with open(os.path.join(d, name), "w") as f:
        f.write("SPECIFICATION Spec\nCONSTANTS KnownDeviations = %s\n Classify = %s\nCONSTRAINT Constr\n"
                "INVARIANT Inv\nPOSTCONDITION Accepted\nCHECK_DEADLOCK FALSE\n" % (ks, "TRUE" if classify else "FALSE"))
    return name


def run_trace_tlc(cfg, lines, tag):
    """TLC over one concatenated trace file; returns (TLCResult, [report dicts {line, sig}])."""
    cur = os.path.join(vlib.sub("traces"), "%s.ndjson" % tag)
    with open(cur, "w") as f:
        for ln in lines:
            f.write(ln if ln.endswith("\n") else ln + "\n")
    reports = []
    res = vlib.run_tlc("TraceGraph", cfg, workers=1, env={"TRACE": cur}, timeout=1800,
                       on_scn=lambda doc: reports.append(json.loads(doc)))
    return res, reports


def focus_trace(lines, k):
    """reset + the commits of the trace + its k-th line (1-based): a self-contained replay."""
    keep = [ln for ln in lines[:k - 1] if '"op":"reset"' in ln or '"op":"commit"' in ln]
    return [json.loads(x) for x in keep + [lines[k - 1]]]


def validate(v, trace_path, known):
    """Validation by TraceGraph with the named deviation enabled for the recorded findings.  When
    it rejects a line, a Classify pass over the same file lets the specification judge EVERY event
    of EVERY trace and label each miss with its signature, so nothing is left unexamined.
    A trace counts as validated when TLC consumed all its events and none got a signature that
    is not a recorded finding."""
    traces = vlib.split_traces(trace_path)
    n_events = sum(len(t[1]) for t in traces)
    offsets, flat, n = [], [], 0
    for first, lines in traces:
        offsets.append((n + 1, n + len(lines)))
        flat += lines
        n += len(lines)

    def locate(gl):
        for ti, (a, b) in enumerate(offsets):
            if a <= gl <= b:
                return ti, gl - a + 1
        raise vlib.Inconclusive("TraceGraph mentions line %s outside every trace" % gl)

    res, reports = run_trace_tlc(trace_cfg("TraceGraph.known.cfg", known, False), flat, "strict")
    mode, first_rejected = "validation", None
    if not res.ok:
        if res.rejected_at is None:
            raise vlib.Inconclusive("trace validation by TraceGraph failed without a rejection line:\n" + res.output_tail)
        first_rejected = res.rejected_at
        mode = "classification after rejection"
        res, reports = run_trace_tlc(trace_cfg("TraceGraph.classify.cfg", [], True), flat, "classify")
        if not res.ok:
            raise vlib.Inconclusive("TraceGraph could not label the trace rejected at line %s:\n%s"
                                    % (first_rejected, res.output_tail))
        if not any(r["line"] == first_rejected for r in reports):
            raise vlib.Inconclusive("TraceGraph rejected line %s but its labelling pass finds no miss there" % first_rejected)
    bad, seen, deviations = set(), set(), 0
    for r in sorted(reports, key=lambda r: r["line"]):
        ti, k = locate(r["line"])
        deviations += 1
        if v._match_known(r["sig"], None) is None:
            bad.add(ti)
        if (ti, r["sig"]) in seen:
            continue
        seen.add((ti, r["sig"]))
        lines = traces[ti][1]
        v.pending.append((r["sig"], dict(engine=ENGINE, mode="trace", trace=focus_trace(lines, k),
                                         event=json.loads(lines[k - 1]), trace_first_line=traces[ti][0],
                                         line_in_trace=k, judged_by="TraceGraph " + mode)))
    return dict(n_traces=len(traces), n_events=n_events, rejected=len(bad), validated=len(traces) - len(bad),
                misses=deviations, mode=mode, first_rejected_line=first_rejected)


def flush(v):
    """Verdict keeps replay files for its first 25 violations only: hand it one violation per
    distinct signature first, so that every signature gets its VIOLATION line and replay file."""
    seen, firsts, rest = set(), [], []
    for sig, doc in v.pending:
        (rest if sig in seen else firsts).append((sig, doc))
        seen.add(sig)
    for sig, doc in firsts + rest:
        v.violation(sig, doc)
    v.pending = []


def trace_samples(path):
    """one recorded event per kind"""
    out, seen = [], set()
    with open(path) as f:
        for line in f:
            m = re.match(r'\{"op":"(\w+)"', line)
            if m and m.group(1) not in seen and m.group(1) != "reset":
                seen.add(m.group(1))
                out.append(json.loads(line))
            if len(seen) == 4:
                break
    return out


def count_ops(path):
    c = {}
    with open(path) as f:
        for line in f:
            m = re.match(r'\{"op":"(\w+)"', line)
            if m:
                c[m.group(1)] = c.get(m.group(1), 0) + 1
    return c


# --------------------------------------------------------------------------- run

def run(tier, seed):
    v = vlib.Verdict(PROP, tier, seed)
    v.pending = []
    vlib.build_harness()
    known = [s for s in ALL_SEEK_SIGS if v._match_known(s, None) is not None]

    # (A)+(B)
    # n4: complete (both parent orders, all clocks, all tuple sizes, with the model-level counterexamples);
    # n5c: every 5-commit shape under three clocks (equal / increasing / decreasing), pairs and triples,
    #      with the model-level counterexamples; n5 (thorough): every 5-commit shape x all clocks.
    universes = [("n4", gen_cfg("GraphGen.n4.cfg", 4, 4, True)),
                 ("n5c", gen_cfg("GraphGen.n5c.cfg", 5, 3, False, allclocks=False))]
    if tier == "thorough":
        universes.append(("n5", gen_cfg("GraphGen.n5.cfg", 5, 3, False, coded=False)))
    stats = {"model_dev_tuples": 0, "model_dev_reproduced": 0, "failing_scenarios": 0, "failing_classes": {},
             "mismatch_scenarios_by_sig": {}, "real_deviation_not_in_model": 0}
    states = transitions = scenarios = 0
    classes = {}
    tlc_runs = []
    samples = []
    for tag, cfg in universes:
        scen = os.path.join(vlib.sub("scn"), "graph.%s.ndjson" % tag)
        res = vlib.run_tlc("GraphGen", cfg, scn_out=scen, timeout=3000)
        vlib.require_ok(res, "GraphGen/" + cfg)
        if res.scn == 0:
            raise vlib.Inconclusive("GraphGen/%s printed no scenario" % cfg)
        states += res.distinct
        transitions += res.generated
        tlc_runs.append({"module": "GraphGen", "cfg": cfg, "generated": res.generated, "distinct": res.distinct,
                         "scenarios": res.scn, "wall_s": round(res.wall, 1)})
        vlib.log("GraphGen/%s: %d scenarios in %.1fs" % (cfg, res.scn, res.wall))
        out = vlib.replay(ENGINE, scen)
        if out.total != res.scn and not out.truncated:
            raise vlib.Inconclusive("replayed %d of %d scenarios of %s" % (out.total, res.scn, cfg))
        scenarios += out.total
        for k, c in out.classes.items():
            classes[k] = classes.get(k, 0) + c
        absorb(v, out, scen, stats)
        samples += vlib.samples_from(scen, 2)

    # (C)
    trace = os.path.join(vlib.sub("traces"), "graph.ndjson")
    ntr, nq = (40, 150) if tier == "quick" else (400, 200)
    p = vlib.run_record(ENGINE, ["--seed", str(seed), "--n", str(ntr), "--len", str(nq), "--out", trace])
    if p.returncode != 0:
        raise vlib.Inconclusive("recorder failed: " + p.stderr[-2000:])
    ops = count_ops(trace)
    for op in ("commit", "isanc", "walk", "seek"):
        if not ops.get(op):
            raise vlib.Inconclusive("recorded trace holds no %s event (vacuous)" % op)
    tv = validate(v, trace, known)

    flush(v)

    nontrivial = sum(c for k, c in classes.items() if k != "-") + \
        sum(c for k, c in stats["failing_classes"].items() if k != "-")
    for k, c in stats["failing_classes"].items():
        classes["(failing) " + k] = c
    cov = {
        "states": states, "transitions": transitions,
        "traces_validated_against_impl": tv["validated"],
        "trace_events": tv["n_events"], "trace_ops": ops,
        "traces_with_an_unrecorded_miss": tv["rejected"], "trace_mode": tv["mode"],
        "trace_events_missing_the_contract": tv["misses"],
        "evaluations": scenarios + tv["n_traces"],
        "distinct_nontrivial": nontrivial,
        "rule": "one scenario = one history x one clock. n4: 4 commits, <=2 parents in both orders plus the 3-parent "
                "octopus shapes, x every assignment of times {1,2,3}; n5c: every 5-commit shape (parent sets, octopus) x "
                "three clocks (equal, increasing, decreasing); n5 (thorough tier): every 5-commit shape x every "
                "assignment of times {1,2,3}. TLC enumerates each universe completely and prints each scenario once "
                "(distinct TLC states). Per scenario the real code answers "
                "every ancestor pair, a walk from every commit and every tuple of 2..K commits with all orders and "
                "repetitions. Non-trivial = the history has at least one parent link; classes = clock class "
                "(mono/tie/skew) / shape / number of roots",
        "classes": classes,
        "scenarios_with_a_mismatch": stats["failing_scenarios"],
        "mismatch_scenarios_by_signature": stats["mismatch_scenarios_by_sig"],
        "model_level_counterexamples": {
            "tuples_where_SeekAsCoded_leaves_the_contract": stats["model_dev_tuples"],
            "reproduced_by_the_real_code": stats["model_dev_reproduced"],
            "real_misses_on_distinct_tuples_not_predicted_by_the_transcription": stats["real_deviation_not_in_model"],
        },
        "samples": samples + trace_samples(trace),
        "exhaustive": True,
        "tlc": tlc_runs,
    }
    return v.finish("model_checking", cov, [
        "commits are real objects in wrgl's in-memory object store (objmock); GetCommit/SaveCommit are trusted",
        "commit times have one-second resolution; scenarios use explicit whole-second times and distinct messages",
        "exhaustive part: histories of 4 (quick) / 4 and 5 (thorough) commits, times from {1,2,3}; larger histories "
        "only through seeded traces of 20-60 commits",
        "the order in which a walk visits commits is not part of the statement and is not compared",
        "any error returned by SeekCommonAncestor counts as 'reported missing'",
    ])


# --------------------------------------------------------------------------- replay

def replay(path):
    with open(path) as f:
        doc = json.load(f)
    vlib.build_harness()
    if doc.get("mode") == "trace":
        ops = os.path.join(vlib.sub("traces"), "ops.ndjson")
        with open(ops, "w") as f:
            for e in doc["trace"]:
                f.write(json.dumps(e, separators=(",", ":")) + "\n")
        t = os.path.join(vlib.sub("traces"), "replay.ndjson")
        p = vlib.run_record(ENGINE, ["--reexec", ops, "--out", t])
        if p.returncode != 0:
            raise vlib.Inconclusive("re-execution failed: " + p.stderr[-2000:])
        with open(t) as f:
            lines = f.readlines()
        res, _ = run_trace_tlc(trace_cfg("TraceGraph.strict.cfg", [], False), lines, "replay")
        if res.ok:
            return 0
        if res.rejected_at is None:
            raise vlib.Inconclusive("TraceGraph failed without a rejection line:\n" + res.output_tail)
        print("VIOLATION property=%s replay=%s" % (PROP, path))
        return 1
    scen = os.path.join(vlib.sub("scn"), "one.ndjson")
    with open(scen, "w") as f:
        f.write(json.dumps(doc["scenario"]) + "\n")
    out = vlib.replay(ENGINE, scen, nshards=1)
    if out.errors:
        raise vlib.Inconclusive(str(out.errors))
    if out.failures or out.crashes or out.timeouts:
        print("VIOLATION property=%s replay=%s" % (PROP, path))
        return 1
    return 0
