"""C10 - without force, a ref only ever moves forward along its own history.

Sync.tla's ref rules (absent -> create; equal -> leave; existing tag -> only when forced; otherwise
fast-forward or forced, else rejected with the ref unchanged and the other refs of the operation updated as
if alone; every move logged with true old / new) are checked by TLC on the model (RulesForward,
RejectionIsLocal) over history pairs equal / ahead / behind / diverged / unrelated x ref kinds
(remote-tracking ref, branch, tag) x per-refspec and global force; every scenario is run through the real
`wrgl fetch` / `wrgl push` against the reference server, the receiver's refs compared with the
specification's, rejections must be reported, and TLC (TraceSync.tla) checks RefsForward and LogFaithful on
the projected real before / after states with ancestry computed by the specification.  Fast-forward merges
are covered by the merge scenarios of this module's extension (MergeFF) and by C11's merge-base contract."""
import json, os
import vlib
from props import sync_common as sc

PROP = "C10"


def run(tier, seed):
    v = vlib.Verdict(PROP, tier, seed)
    vlib.build_harness()
    res, out, scen, trace = sc.run_scenarios(tier, seed)
    n_traces, n_events, rej, owned = sc.judge(v, PROP, out, scen, trace, sc.C10_SIGS, sc.C10_CLAUSES)
    from props import system_common
    syscov, _ = system_common.run(v, PROP, tier, seed)
    # which refs a configured fetch would update: refspecs written by `wrgl remote ...` (engine remotecfg)
    from props import remotecfg_common
    rcov, _ = remotecfg_common.run(v, PROP, tier, seed)
    # two-repository behaviours of System2.tla (commit / fetch / push / pull / merge / prune through the real CLI)
    from props import system2_common
    sys2cov, _ = system2_common.run(v, PROP, tier, seed)
    cov = {
        "system2_behaviours": sys2cov,
        "remotecfg": rcov,
        "system_behaviours": syscov,
        "states": res.distinct, "transitions": res.generated,
        "traces_validated_against_impl": n_traces - rej,
        "evaluations": out.total, "distinct_nontrivial": sum(c for k, c in out.classes.items()),
        "rule": "every (operation, history pair, tag states, force flags, depth) state of SyncGen is one scenario (quick: every 5th, "
                "seed-rotated); each runs the real CLI twice (the second run must be a no-op); classes = op/outcome/depth",
        "classes": out.classes, "rejections_owned_by_C09": rej - owned,
        "samples": vlib.samples_from(scen, 3),
        "tlc": {"module": "SyncGen", "generated": res.generated, "distinct": res.distinct, "wall_s": round(res.wall, 1)},
    }
    return v.finish("model_checking", cov, [
        "the server is the reference server of the harness (the real one lives in another repository); its policy is Sync.tla's",
        "authentication, retries on stream errors and wrglhub specifics are out of scope",
        "haves-per-round-trip is not reachable through the command line (fixed at 256); multi-round negotiation is exercised by C08",
    ])


def replay(path):
    with open(path) as f:
        doc = json.load(f)
    if doc.get("engine") == "system2":
        from props import system2_common
        return system2_common.replay(PROP, path, doc)
    return sc.replay_scenario(PROP, path, doc)
