"""C18 - decoding a stream does not depend on how the transport chunks it.

spec/Stream.tla is the io.Reader CONTRACT as a state machine (Read(req) returns any n in
1..Min(req, remaining); EOF together with the last bytes or on a later call) with a decoder on top
that reads the stream's fields (the field boundaries of the format: Wire!Segs...) with io.ReadFull
semantics.
(A) TLC explores EVERY delivery schedule of the plans of the streams of spec/StreamGen.tla and checks
    ChunkingTheorem (decoded field sequence and end-of-stream condition = those of the whole-buffer
    delivery), PrefixInv, ReaderInv, WholeInv and Termination; the same model with the "single Read"
    decoder (the defect shape) MUST violate ChunkingTheorem - a self-test that the model sees the defect;
(B) StreamGen enumerates, per stream (packfile, pkt-lines, commit, table, block, block index, uint list,
    string list, table profile), every subset of K chosen interesting cut points (field boundaries, +-1,
    mid-field; the choice rotates with the seed) x {EOF with the last bytes, EOF later}, every single
    candidate point, the all-1-byte and the "1 byte then the rest" schedules; TLC checks the theorem
    instance on each and prints it; the harness (engine `stream`) delivers each schedule through a
    scripted io.Reader into the REAL decoders: the result (objects, error-ness, end-of-stream condition)
    must be the whole-buffer decode of the same bytes and the specification's;
(C) a seeded sample of the scripted reader's own call logs (requested, returned, eof) is validated by
    spec/TraceStream.tla against the contract and the scenario's schedule, so that a differing decode can
    only be the decoder's doing.  A rejected log is a defect of the HARNESS: inconclusive, never a verdict.

A failing schedule is explained by its elements (each cut / "EOF with data" alone on the real decoder);
the signature is stream/<function whose Read was answered partially>/<short-read | eof-with-data>.

Helpers not in vlib: split of the SCN lines into stream definitions and schedules (the children get the
definitions through VERIF_STREAM_DEFS); absorb() reports EVERY signature of a failing scenario."""
import json, os, random
import vlib

PROP = "C18"
ENGINE = "stream"
RLIMIT_AS = 8 << 30

# stream index in spec/StreamGen.tla!Streams -> kind (1..9 first values, 10..18 second values)
KINDS = ["packfile", "pktline", "commit", "table", "block", "blkidx", "uintlist", "strlist", "profile"]


def kcodes(tier):
    """stream index * 100 + number of chosen cut points."""
    if tier == "thorough":
        k = {1: 16, 2: 16, 3: 16, 4: 14, 5: 12, 6: 12, 7: 12, 8: 12, 9: 12,
             10: 10, 11: 10, 12: 10, 13: 10, 14: 8, 15: 8, 16: 8, 17: 8, 18: 8, 19: 8}
    else:
        k = {1: 10, 2: 10, 3: 10, 4: 10, 5: 6, 6: 6, 7: 6, 8: 6, 9: 6, 19: 5}
    return k


def write_cfg(name, spec, k, rot, cap, variant, invariants, prop=None):
    with open(os.path.join(vlib.spec_copy(), name), "w") as f:
        f.write("SPECIFICATION %s\nCONSTANTS\n KCodes = {%s}\n Rot = %d\n Cap = %d\n Plans = {}\n Variant = \"%s\"\n"
                % (spec, ", ".join(str(i * 100 + n) for i, n in sorted(k.items())), rot, cap, variant))
        f.write("INVARIANT %s\n" % " ".join(invariants))
        if prop:
            f.write("PROPERTY %s\n" % prop)
        f.write("CHECK_DEADLOCK FALSE\n")
    return name


def model_check(tier, k):
    """Use (A).  The theorem on every delivery schedule; the single-Read decoder must break it."""
    cap = 96 if tier == "thorough" else 24
    allk = {i: 0 for i in (range(1, 20) if tier == "thorough" else k)}
    cfg = write_cfg("StreamGen.contract.cfg", "ContractSpec", allk, 0, cap, "full",
                    ["ReaderInv", "ChunkingTheorem", "PrefixInv", "WholeInv"], "Termination")
    res = vlib.run_tlc("StreamGen", cfg, workers=min(vlib.NCPU, 8), heap="2g", coverage=True, timeout=900)
    vlib.require_ok(res, "Stream contract (ReadFull decoder, every delivery schedule)")
    zero = [z for z in res.coverage_zero if z.startswith("Contract") or z.startswith("Read")]
    if zero or res.generated <= res.distinct:
        raise vlib.Inconclusive("vacuity: contract actions never taken: %s" % (zero or "no transitions"))
    cfg = write_cfg("StreamGen.single.cfg", "ContractSpec", allk, 0, cap, "single", ["ChunkingTheorem"])
    bad = vlib.run_tlc("StreamGen", cfg, workers=2, heap="2g", timeout=600, extra=["-noGenerateSpecTE"])
    if bad.ok or "ChunkingTheorem" not in bad.violated:
        raise vlib.Inconclusive("self-test failed: the single-Read decoder does not violate ChunkingTheorem in the model:\n"
                                + bad.output_tail[-1500:])
    return [{"module": "StreamGen/ContractSpec", "decoder": "ReadFull", "field_cap": cap, "streams": len(allk),
             "generated": res.generated, "distinct": res.distinct, "wall_s": round(res.wall, 1), "result": "theorem holds"},
            {"module": "StreamGen/ContractSpec", "decoder": "single Read (defect shape)", "field_cap": cap,
             "generated": bad.generated, "distinct": bad.distinct, "wall_s": round(bad.wall, 1),
             "result": "ChunkingTheorem violated (required)"}], res


def generate(tier, seed, k):
    """Use (B): TLC prints the stream definitions and the schedules."""
    rot = random.Random(seed).randrange(1, 100000)
    cfg = write_cfg("StreamGen.gen.cfg", "GenSpec", k, rot, 24, "full", ["GenInv"])
    d = vlib.sub("scn")
    defs_path, scen = os.path.join(d, "stream-defs.ndjson"), os.path.join(d, "stream.ndjson")
    counts = {"def": 0, "sch": 0}
    with open(defs_path, "w") as fd, open(scen, "w") as fs:
        def route(doc):
            if doc.startswith('["def"'):
                fd.write(doc + "\n")
                counts["def"] += 1
            elif doc.startswith('["sch"'):
                fs.write(doc + "\n")
                counts["sch"] += 1
            else:
                raise vlib.Inconclusive("unexpected SCN line: " + doc[:80])
        res = vlib.run_tlc("StreamGen", cfg, workers=vlib.NCPU, heap="2g", on_scn=route,
                           timeout=3000 if tier == "thorough" else 900)
    vlib.require_ok(res, "StreamGen schedules (theorem instance on every schedule)")
    if counts["def"] != len(k) or counts["sch"] == 0:
        raise vlib.Inconclusive("StreamGen printed %s for %d streams" % (counts, len(k)))
    # TLC's workers print in a different order on every run: a stable order makes scenario numbers (the seeded
    # sample of reader logs, replay documents) reproducible
    with open(scen) as f:
        lines = f.readlines()
    lines.sort()
    with open(scen, "w") as f:
        f.writelines(lines)
    del lines
    defs = {}
    with open(defs_path) as f:
        for line in f:
            doc = json.loads(line)
            defs[doc[1]] = doc
    per = {}
    with open(scen) as f:
        for line in f:
            i = int(line[7:line.index(",", 7)])
            per[i] = per.get(i, 0) + 1
    for i, n in k.items():
        cand = len(defs[i][8])
        if per.get(i, 0) < 2 * (2 ** min(n, cand)):
            raise vlib.Inconclusive("stream %d: %d schedules, expected at least %d" % (i, per.get(i, 0), 2 * 2 ** min(n, cand)))
    vlib.log("schedules per stream: %s" % json.dumps({"%d:%s" % (i, defs[i][2]): per[i] for i in sorted(per)}))
    return defs_path, scen, defs, res, rot


def corrupt_for_demo(defs_path):
    """Development aid (binding demonstration): VERIF_C18_CORRUPT=<stream id> alters one expected value of
    that stream's definition line (an item byte for packfile / pkt-lines, else the end-of-stream condition)."""
    n = os.environ.get("VERIF_C18_CORRUPT")
    if n is None:
        return
    n = int(n)
    out = []
    for line in open(defs_path):
        doc = json.loads(line)
        if doc[1] == n:
            if doc[6]:
                it = doc[6][0][1] if doc[2] == "packfile" else doc[6][0]
                it[0][0] = (it[0][0] + 1) % 256
            else:
                doc[3] = "EOF" if doc[3] == "Done" else "Done"
            vlib.log("binding demo: corrupted the expectation of stream %d (%s)" % (n, doc[2]))
        out.append(json.dumps(doc, separators=(",", ":")))
    open(defs_path, "w").write("\n".join(out) + "\n")


def absorb(v, out, scen, defs):
    """Every signature of a failing scenario is reported (a schedule can trip several decoder sites);
    the needed scenario lines are fetched in one pass."""
    hard_errors = [e for e in out.errors if not (out.crashes and "too many child restarts" in e[1])]
    if hard_errors:
        raise vlib.Inconclusive("harness errors: %s" % hard_errors[:3])
    # replay documents are only needed for signatures that are not known findings: keep the best-explained few
    full, thin, counts = {}, {}, {}
    for idx, sig, detail in sorted(out.failures, key=lambda f: f[0]):
        for s in (detail or {}).get("sigs") or [sig]:
            counts[s] = counts.get(s, 0) + 1
            if "whole_buffer_decode" in (detail or {}):
                if len(full.setdefault(s, [])) < 2:
                    full[s].append((idx, detail))
            else:
                thin.setdefault(s, (idx, detail))
    by_sig = {s: full.get(s) or [thin[s]] for s in counts}
    need = set(i for l in by_sig.values() for i, _ in l) | set(i for i, _ in out.crashes) | set(out.timeouts)
    lines = {}
    if need:
        with open(scen) as f:
            for i, line in enumerate(f):
                if i in need:
                    lines[i] = json.loads(line)
    for s in sorted(by_sig):
        for idx, detail in by_sig[s]:
            sc = lines[idx]
            doc = dict(engine=ENGINE, scenario=sc, stream_def=defs[sc[1]], detail=detail, scenarios_with_this_signature=counts[s])
            v.violation(s, doc)
        # count the remaining hits of a known finding (no replay documents needed)
        k = v._match_known(s, None)
        if k is not None and counts[s] > len(by_sig[s]):
            what, c = v.known.get(k["id"], (k.get("what", s), 0))
            v.known[k["id"]] = (what, c + counts[s] - len(by_sig[s]))
    for idx, text in sorted(out.crashes)[:10]:
        sc = lines[idx]
        v.violation("stream/%s/crash" % defs[sc[1]][2],
                    dict(engine=ENGINE, scenario=sc, stream_def=defs[sc[1]], detail={"crashed": True, "stderr": text[-1500:]}))
    for idx in sorted(out.timeouts)[:10]:
        sc = lines[idx]
        v.violation("stream/%s/timeout" % defs[sc[1]][2],
                    dict(engine=ENGINE, scenario=sc, stream_def=defs[sc[1]], detail={"timeout": True}))
    return counts


def validate_reader_logs(side_path):
    """Use (C): the scripted reader's own call logs against the contract.  Returns (traces, events, TLCResult)."""
    tpath = os.path.join(vlib.sub("traces"), "stream-reader.ndjson")
    n = 0
    with open(side_path) as f, open(tpath, "w") as out:
        for line in f:
            doc = json.loads(line)
            if doc.get("kind") != "trace":
                continue
            n += 1
            for ev in doc["docs"]:
                out.write(json.dumps(ev, separators=(",", ":")) + "\n")
    if n == 0:
        raise vlib.Inconclusive("no reader log was recorded")
    name = "TraceStream.cfg"
    with open(os.path.join(vlib.spec_copy(), name), "w") as f:
        f.write("SPECIFICATION TSpec\nCONSTANTS Plans = {}\n Variant = \"full\"\nCONSTRAINT Constr\nINVARIANT TInv\n"
                "POSTCONDITION Accepted\nCHECK_DEADLOCK FALSE\n")
    nt, ne, rej, last = vlib.validate_traces("TraceStream", name, tpath, timeout=900, heap="2g", max_rejections=1)
    if rej:
        r = rej[0]
        raise vlib.Inconclusive("harness self-check failed: the scripted reader's own call log is outside the io.Reader "
                                "contract / the scenario's schedule at line %d of the log of scenario %s: %s"
                                % (r["line_in_trace"], json.loads(r["event"]).get("scn"), r["event"]))
    return nt, ne, last


def pick_samples(scen, defs):
    out, seen = [], set()
    with open(scen) as f:
        for line in f:
            doc = json.loads(line)
            if doc[1] not in seen and 2 <= len(doc[2]) <= 8 and doc[4] == 1:
                seen.add(doc[1])
                d = defs[doc[1]]
                out.append({"schedule": doc, "stream": {"id": d[1], "kind": d[2], "end_of_stream": d[3], "total_bytes": d[7],
                                                        "fields": d[5][:12], "bytes_as_runs": d[4][:12]}})
            if len(out) >= 4:
                break
    return out


def run(tier, seed):
    v = vlib.Verdict(PROP, tier, seed)
    vlib.build_harness()
    k = kcodes(tier)
    a_runs, a_res = model_check(tier, k)
    defs_path, scen, defs, gres, rot = generate(tier, seed, k)
    corrupt_for_demo(defs_path)
    nscen = sum(1 for _ in open(scen))
    mod = max(1, nscen // (400 if tier == "thorough" else 150))
    side = os.path.join(vlib.sub("traces"), "stream-side.ndjson")
    env = {"VERIF_STREAM_DEFS": defs_path, "VERIF_STREAM_TRACE_MOD": str(mod)}
    if os.environ.get("VERIF_STREAM_TRACE_LIE"):
        env["VERIF_STREAM_TRACE_LIE"] = os.environ["VERIF_STREAM_TRACE_LIE"]
    # a decoder that took a partial Read for a whole field goes on with garbage lengths; the address-space limit turns
    # an allocation of tens of GB from such a count into the immediate death of the child (attributed to the scenario)
    # instead of a minute of page faults
    out = vlib.replay(ENGINE, scen, timeout=60, env=env, extra=["--seed", str(seed)], side_path=side, rlimit_as=RLIMIT_AS)
    counts = absorb(v, out, scen, defs)
    nt, ne, tres = validate_reader_logs(side)
    nontrivial_passed = sum(c for cl, c in out.classes.items() if cl != "-")
    failed = len(out.failures) + len(out.crashes) + len(out.timeouts)
    cov = {
        "states": a_res.distinct + gres.distinct,
        "transitions": a_res.generated + gres.generated,
        "traces_validated_against_impl": out.total,
        "evaluations": out.total,
        "distinct_nontrivial": nontrivial_passed + failed,
        "rule": "one scenario = one leaf state of StreamGen/GenSpec = one (stream, set of cut points, EOF placement), distinct by "
                "construction; each is delivered by a scripted io.Reader into the real decoder(s) of the stream's kind and the "
                "result compared with the whole-buffer decode and the specification's.  Non-trivial = the specification's "
                "single-Read decoder does NOT survive the schedule (a cut inside a field, or EOF together with the last bytes): "
                "counted from the class labels of the scenarios that passed, plus every failing scenario (each fails on a "
                "schedule the ReadFull decoder of the specification survives)",
        "classes": out.classes,
        "samples": pick_samples(scen, defs),
        "exhaustive": True,
        "failed_or_known": failed,
        "signatures": counts,
        "streams": {str(i): {"kind": defs[i][2], "bytes": defs[i][7], "fields": len(defs[i][5]), "candidate_cut_points": len(defs[i][8]),
                             "chosen_cut_points": min(k[i], len(defs[i][8]))} for i in sorted(defs)},
        "seeded_rotation_of_chosen_points": rot,
        "tlc": a_runs + [{"module": "StreamGen/GenSpec", "generated": gres.generated, "distinct": gres.distinct,
                          "schedules": gres.scn - len(defs), "wall_s": round(gres.wall, 1)},
                         {"module": "TraceStream", "reader_logs": nt, "events": ne, "wall_s": round(tres.wall, 1),
                          "result": "every logged answer is inside the io.Reader contract and is the schedule's"}],
    }
    return v.finish("model_checking", cov, [
        "a reader honours the io.Reader contract as modelled: n >= 1 unless the buffer is empty or EOF is reported; after EOF always "
        "(0, EOF); no (0, nil) answers to a non-empty request and no errors other than EOF (transport errors are not chunking)",
        "the scripted reader zeroes the part of the caller's buffer it did not fill (the contract allows a Read to use all of the "
        "buffer as scratch space), so that a decoder relying on one Read fails deterministically",
        "the streams are valid encodings built with the format definition spec/Wire.tla (property C06 binds it to the real "
        "encoders); decoded objects are compared through their re-encoding by the real encoder",
        "ContractSpec explores every delivery schedule with field lengths capped (quick 24, thorough 96 bytes): the contract model "
        "does not look at content; the replayed schedules use the real lengths",
        "the signature names the function that issued the partially answered Read (runtime call stack of the harness's reader); it "
        "classifies a violation, it is not part of the oracle",
        "pkt-line reading has no production caller in wrgl: the loop used is ReadPktLine until it reports an error; the packfile "
        "loop is the one of apiutils.ObjectReceiver.Receive",
    ])


def replay(path):
    with open(path) as f:
        doc = json.load(f)
    vlib.build_harness()
    d = vlib.sub("scn")
    defs_path, scen = os.path.join(d, "one-defs.ndjson"), os.path.join(d, "one.ndjson")
    with open(defs_path, "w") as f:
        f.write(json.dumps(doc["stream_def"], separators=(",", ":")) + "\n")
    with open(scen, "w") as f:
        f.write(json.dumps(doc["scenario"], separators=(",", ":")) + "\n")
    out = vlib.replay(ENGINE, scen, nshards=1, timeout=60, env={"VERIF_STREAM_DEFS": defs_path, "VERIF_STREAM_TRACE_MOD": "0"},
                      rlimit_as=RLIMIT_AS)
    if out.errors:
        raise vlib.Inconclusive(str(out.errors))
    if out.failures or out.crashes or out.timeouts:
        for _, sig, detail in out.failures:
            vlib.log("still fails:", (detail or {}).get("sigs") or sig)
        print("VIOLATION property=%s replay=%s" % (PROP, path))
        return 1
    return 0
