"""C07 - commits sent through packfiles are reproduced exactly at the destination.

(A) TLC explores spec/TransferGen.tla with Explore = TRUE: from every scenario of the bounded universe
    the design of spec/Transfer.tla (EnqueueNextCommit, EnqueueTable, OpenPack, WriteObject, ClosePack,
    RecvBlock, RecvTable, RecvCommit, Reject, EndPack; packfile limit 1 / 2 / unlimited objects) is run
    and checked: OrderAccepted (the sender's order keeps every receiver action enabled), NoOrphanAccept
    (action property), DstSound (every table present at the destination is usable), DstGrows, AtDone (the
    destination is exactly the statement's Final, whatever the limit); for adversarial orders AdvDone
    (the stream ends exactly where the statement says, with the store it says).
(B) every scenario line - family "send": DAG x table assignment (T1={b1,b2}, T2={b2,b3}, T3={b4}) x
    split into commits already there / commits sent x tables-to-send x common commits x pre-populated
    destination; family "adv": every permutation of a send's objects, one table optionally corrupted -
    is executed on the real code: real source and destination stores with really shared 255-row blocks,
    the real ObjectSender.WriteObjects loop under real byte limits from 1 byte upward -> packfile bytes ->
    PackfileReader -> ObjectReceiver.Receive (adversarial packfiles are written with packfile.Writer).
    Compared: accepted prefix / rejected object, projected destination against the Final / Upper stores
    TLC exported, commits / tables / blocks byte for byte against the source, rebuilt indices and
    profile, an empty real diff against the original table.
(C) events of real sessions (a sample of the scenarios of (B), and seeded random histories of 10-25
    commits with random table reuse, shallow sources, stray blocks, random byte limits, crafted
    packfiles) are validated by TLC against spec/TraceTransfer.tla (order + enabledness + final store);
    every received table observed with tbl.Observe is judged by TLC with Objects!TableWellFormed
    (TraceTable.tla, B = 255).

Helpers that vlib lacks live in props/transfer_common.py."""
import json, os, time
import vlib
from props import ingest_common as ic
from props import transfer_common as tc

PROP = "C07"
ENGINE = tc.ENGINE

ASSUMPTIONS = [
    "object identity is by key: abstract block j is a fixed 255-row key range ingested through the real ingest "
    "pipeline, so a block shared by two tables is one real object; the bijection key <-> abstract id is checked "
    "when the universe is built, and packfile objects are identified from their content, not from what the "
    "sender's PackfileInfo says",
    "a send satisfies Pre (spec/Transfer.tla): the commit list is parent-first, parents that are not sent are at "
    "the destination, commits declared common are at the destination with their tables complete; the order of a "
    "real sender is only demanded to be acceptable when Pre holds",
    "the statement quantifies over the packfile splitting, it does not prescribe it: where the real sender closes "
    "a packfile is recorded and compared with the design's rule (size >= max) as a NOTE, never as a verdict; the "
    "abstract limits 1 / 2 / unlimited objects of the model correspond to real byte limits 1, 200, 3000, 6000, "
    "0 (= 2 GiB default) and random ones in the traces",
    "block indices rebuilt for blocks that are present before a table is refused may stay (nothing refers to "
    "them); everything else of a refused object must be absent",
    "objects beyond the statement's Final that belong to the sent commits' tables may arrive (Upper); nothing else may",
    "meow / s2 and the in-memory mock object store are trusted; the receiver's save hook is used to learn which "
    "objects were persisted and is cross-checked against the packfile content and the final key set",
]


def _count(it):
    d = {}
    for x in it:
        d[x] = d.get(x, 0) + 1
    return d


def lines_at(path, wanted):
    wanted = set(wanted)
    out = {}
    if not wanted:
        return out
    with open(path) as f:
        for i, line in enumerate(f):
            if i in wanted:
                out[i] = line.rstrip("\n")
    return out


def absorb(v, outcome, scen, what):
    if outcome.errors:
        raise vlib.Inconclusive("harness errors (%s): %s" % (what, outcome.errors[:3]))
    idxs = [i for i, _, _ in outcome.failures] + [i for i, _ in outcome.crashes] + list(outcome.timeouts)
    raw = lines_at(scen, idxs)
    for idx, sig, detail in outcome.failures:
        v.violation(sig, dict(engine=ENGINE, scenario=json.loads(raw[idx]), detail=detail))
    for idx, text in outcome.crashes:
        v.violation("transfer/crash/child-death", dict(engine=ENGINE, scenario=json.loads(raw[idx]),
                                                       detail={"crashed": True, "stderr": text[-1500:]}))
    for idx in outcome.timeouts:
        v.violation("transfer/timeout", dict(engine=ENGINE, scenario=json.loads(raw[idx]), detail={"timeout": True}))


def concat(parts, dest):
    n = 0
    with open(dest, "w") as out:
        for p in parts:
            with open(p) as f:
                for line in f:
                    out.write(line)
                    n += 1
    return n


def model_and_scenarios(tier):
    """(A) + generation for (B).  Returns dict with scenario files, counts and TLC numbers."""
    d = vlib.sub("scn")
    jobs = []

    def job(name, family, n, min_n, d0, explore, maxes="{1}", tts="all", advmax=6, shard=0, nshards=1, cov=False, keep=True):
        cfg = tc.gen_cfg("TransferGen.%s.cfg" % name, family, n, min_n, d0, explore, maxes, tts, advmax, shard, nshards)
        jobs.append(dict(cfg=cfg, scn_out=os.path.join(d, name + ".ndjson"), coverage=cov, what="TransferGen " + name,
                         family=family, explore=explore, keep=keep, name=name))

    m3 = "{1, 2, 99}"
    if tier == "quick":
        job("send-n2-all-A", "send", 2, 1, "all", True, m3, cov=True)           # design + scenarios, with coverage
        job("adv-n2-few-A", "adv", 2, 1, "few", True, cov=True)
        job("send-n3-few", "send", 3, 3, "few", False)
    else:
        job("send-n2-all-A", "send", 2, 1, "all", True, m3, cov=True)
        job("adv-n2-all-A", "adv", 2, 1, "all", True, cov=True)
        for k in range(4):                                                       # design on n = 3 (scenarios come from the next job)
            job("send-n3-few-A%d" % k, "send", 3, 3, "few", True, m3, shard=k, nshards=4, keep=False)
        job("send-n3-all", "send", 3, 3, "all", False)
        for k in range(8):
            job("send-n4-bare-%d" % k, "send", 4, 4, "bare", False, tts="ends", shard=k, nshards=8)
        job("adv-n3-bare", "adv", 3, 3, "bare", False, advmax=5)
    t0 = time.time()
    results = tc.run_tlc_many(jobs)
    wall = time.time() - t0
    # vacuity: every action of the design is taken in some exploring run; the deviation action never
    zero_sets = [set(z.split("@")[0] for z in r.coverage_zero) for j, r in zip(jobs, results) if j["coverage"]]
    never = set.intersection(*zero_sets) if zero_sets else set()
    design = {"EnqueueNextCommit", "EnqueueTable", "OpenPack", "WriteObject", "ClosePack", "KeepWriting", "RecvBlock",
              "RecvTable", "RecvCommit", "Reject", "EndPack", "Terminated"}
    if never & design:
        raise vlib.Inconclusive("actions never taken (vacuous model): %s" % sorted(never & design))
    if "RejectAsCoded" not in never:
        raise vlib.Inconclusive("the named deviation RejectAsCoded is enabled in a model-checking configuration")
    send_parts = [j["scn_out"] for j in jobs if j["family"] == "send" and j["keep"]]
    adv_parts = [j["scn_out"] for j in jobs if j["family"] == "adv" and j["keep"]]
    # scenarios of n <= 3 get every real byte limit in the thorough tier; the big n = 4 family two of them
    info = {"wall": wall, "jobs": [dict(name=j["name"], explore=j["explore"], generated=r.generated, distinct=r.distinct,
                                       scn=r.scn, wall_s=round(r.wall, 1)) for j, r in zip(jobs, results)]}
    info["states"] = sum(r.distinct for j, r in zip(jobs, results) if j["explore"])
    info["transitions"] = sum(r.generated for j, r in zip(jobs, results) if j["explore"])
    small = [p for p in send_parts if "-n4-" not in p]
    big = [p for p in send_parts if "-n4-" in p]
    info["send_small"] = os.path.join(d, "send.small.ndjson")
    info["n_send_small"] = concat(small, info["send_small"])
    info["send_big"] = None
    info["n_send_big"] = 0
    if big:
        info["send_big"] = os.path.join(d, "send.big.ndjson")
        info["n_send_big"] = concat(big, info["send_big"])
    info["adv"] = os.path.join(d, "adv.ndjson")
    info["n_adv"] = concat(adv_parts, info["adv"])
    for p in send_parts + adv_parts:
        os.remove(p)
    return info


def binding_selftest_replay(send_scen, adv_scen, bad_send, bad_adv):
    """Corrupt one expected value of scenarios the real code just passed; the harness must report
    exactly those, and still pass the untouched ones."""
    pick_s = pick_a = None
    with open(send_scen) as f:
        for i, line in enumerate(f):
            if i in bad_send:
                continue
            dd = json.loads(line)
            if dd["fin"]["t"] != dd["d0"]["t"] and len(dd["fin"]["t"]) < 3:
                pick_s = dd
                break
    with open(adv_scen) as f:
        for i, line in enumerate(f):
            if i in bad_adv:
                continue
            dd = json.loads(line)
            if dd["rej"][0] == "c" and dd["acc"] >= 1:
                pick_a = dd
                break
    if pick_s is None or pick_a is None:
        return "skipped: no suitable passing scenario"
    a = json.loads(json.dumps(pick_s))          # demand a table the statement does not demand
    extra = [t for t in (1, 2, 3) if t not in a["fin"]["t"]][0]
    a["fin"]["t"] = sorted(a["fin"]["t"] + [extra])
    a["up"]["t"] = sorted(set(a["up"]["t"] + [extra]))
    b = json.loads(json.dumps(pick_s))          # forbid a commit that has to arrive
    b["up"]["c"] = b["up"]["c"][:-1]
    b["fin"]["c"] = [c for c in b["fin"]["c"] if c in b["up"]["c"]]
    c = json.loads(json.dumps(pick_a))          # claim the orphan commit is acceptable
    c["acc"] = c["acc"] + 1
    e = json.loads(json.dumps(pick_a))          # claim the last accepted object is not
    e["rej"] = e["ord"][e["acc"] - 1]
    e["acc"] = e["acc"] - 1
    p = os.path.join(vlib.sub("scn"), "selftest.ndjson")
    with open(p, "w") as f:
        for x in (pick_s, a, b, pick_a, c, e):
            f.write(json.dumps(x) + "\n")
    out = vlib.replay(ENGINE, p, nshards=1)
    got = {i: s for i, s, _ in out.failures}
    want = {1: "transfer/send/missing/t", 2: "transfer/send/invented/c", 4: "transfer/adv/rejected-acceptable/c"}
    ok5 = got.get(5, "").startswith("transfer/adv/accepted-unacceptable/")
    got5 = {k: s for k, s in got.items() if k != 5}
    if out.errors or out.crashes or got5 != want or not ok5:
        raise vlib.Inconclusive("binding self-test (replay): corrupted expectations were not reported exactly: "
                                "failures=%s errors=%s crashes=%s" % (got, out.errors[:2], len(out.crashes)))
    return "corrupted Final / Upper / accepted prefix / rejected object of passing scenarios reported exactly"


def binding_selftest_trace(traces, skip, cfg):
    """Flip the ok flag of one recv event of a trace TLC has just accepted: TLC must now reject
    exactly that line."""
    for ti, (_, lines) in enumerate(traces):
        if ti in skip:
            continue
        for k, ln in enumerate(lines):
            e = json.loads(ln)
            if e["op"] == "recv" and e["ok"] and e["kind"] == "c":
                e["ok"] = False
                p = os.path.join(vlib.sub("traces"), "c07selftest.ndjson")
                with open(p, "w") as f:
                    f.write("".join(lines[:k]) + json.dumps(e, separators=(",", ":")) + "\n" + "".join(lines[k + 1:]))
                res = vlib.run_tlc("TraceTransfer", cfg, workers=1, env={"TRACE": p}, timeout=600, heap=tc.HEAP)
                if res.ok or res.rejected_at != k + 1:
                    raise vlib.Inconclusive("binding self-test (trace): corrupted line %d was not rejected exactly "
                                            "(rejected_at=%s ok=%s)" % (k + 1, res.rejected_at, res.ok))
                return "flipped ok flag of one recv event rejected at exactly that line"
    return "skipped: no cleanly accepted trace with an accepted commit"


DEV_SIG = {"missing-block": "transfer/reject/table-left-stored/missing-block",
           "index-mismatch": "transfer/reject/table-left-stored/index-mismatch"}


def judge_traces(v, trace_path, cfg, source):
    n_traces, n_events, rejections, devs, notes, last, traces = tc.validate(trace_path, cfg, label=source)
    for r in rejections:
        ev = json.loads(r["event"])
        kind = ev.get("op")
        if kind == "recv":
            kind = "recv-%s-%s" % (ev.get("kind"), "ok" if ev.get("ok") else "refused")
        v.violation("transfer/trace-rejected/%s" % kind,
                    dict(engine=ENGINE, mode="trace", source=source, trace=[json.loads(x) for x in traces[r["trace"]][1]],
                         rejected_line=r["line_in_trace"], event=ev))
    dev_traces = set()
    for ti, ln, kind in devs:
        dev_traces.add(ti)
        v.violation(DEV_SIG.get(kind, "transfer/deviation/" + str(kind)),
                    dict(engine=ENGINE, mode="trace", source=source, trace=[json.loads(x) for x in traces[ti][1]],
                         deviation_line=ln, deviation=kind))
    return dict(n_traces=n_traces, n_events=n_events, rejected=len(rejections), dev_traces=dev_traces,
                rej_traces=set(r["trace"] for r in rejections), notes=len(notes), last=last, traces=traces)


def run(tier, seed):
    v = vlib.Verdict(PROP, tier, seed)
    vlib.build_harness()
    quick = tier == "quick"
    # (A) + scenario generation
    gen = model_and_scenarios(tier)
    vlib.log("TransferGen: %d send + %d send(n=4) + %d adversarial scenarios, %d states explored, %.1fs" %
             (gen["n_send_small"], gen["n_send_big"], gen["n_adv"], gen["states"], gen["wall"]))
    # (B)
    side = os.path.join(vlib.sub("traces"), "replay.side")
    sides = []
    outs = []

    def rep(scen, n, limits, trace_every, obs_every, tag):
        if not scen or n == 0:
            return None
        sp = side + "." + tag
        t0 = time.time()
        out = vlib.replay(ENGINE, scen, env={"TRANSFER_LIMITS": limits, "TRANSFER_TRACE_EVERY": str(trace_every),
                                             "TRANSFER_OBS_EVERY": str(obs_every)}, timeout=60, side_path=sp)
        vlib.log("replayed %d %s scenarios in %.1fs" % (out.total, tag, time.time() - t0))
        if out.total != n and not out.errors and not out.truncated:
            raise vlib.Inconclusive("replayed %d of %d %s scenarios" % (out.total, n, tag))
        absorb(v, out, scen, tag)
        sides.append(sp)
        outs.append((tag, out))
        return out

    # sampling: ~400 (quick) / ~2500 (thorough) sessions traced, ~150 / ~700 scenarios observed
    n_small, n_big, n_adv = gen["n_send_small"], gen["n_send_big"], gen["n_adv"]
    o_send = rep(gen["send_small"], n_small, "rot" if quick else "all",
                 max(1, n_small // (250 if quick else 1200)), max(1, n_small // (100 if quick else 400)), "send")
    o_big = rep(gen["send_big"], n_big, "rot", max(1, n_big // 600), max(1, n_big // 150), "send4")
    o_adv = rep(gen["adv"], n_adv, "rot", max(1, n_adv // (250 if quick else 1200)), max(1, n_adv // (60 if quick else 200)), "adv")
    # write errors injected into the RECEIVER at its k-th store write: what the destination held before stays, and
    # every table it holds afterwards is fully usable
    fscen = os.path.join(vlib.sub("scn"), "send-fault.ndjson")
    step = max(1, n_small // (400 if quick else 3000))
    with open(gen["send_small"]) as f, open(fscen, "w") as g:
        for i, line in enumerate(f):
            if i % step == seed % step:
                g.write(line)
    o_fault = vlib.replay("transferfault", fscen, env={"VERIF_SEED": str(seed)}, timeout=120)
    absorb(v, o_fault, fscen, "receiver faults")
    if not o_fault.classes.get("fault"):
        raise vlib.Inconclusive("no injected receiver write error fired (vacuous)")
    bad_send = set([i for i, _, _ in o_send.failures] + [i for i, _ in o_send.crashes] + list(o_send.timeouts))
    bad_adv = set([i for i, _, _ in o_adv.failures] + [i for i, _ in o_adv.crashes] + list(o_adv.timeouts))
    st_replay = binding_selftest_replay(gen["send_small"], gen["adv"], bad_send, bad_adv)
    # (C) seeded random histories
    ncases = 60 if quick else 500
    rout, cases, rfiles = tc.record(seed, ncases, "c07rec", obs_every=4 if quick else 6)
    if rout.errors:
        raise vlib.Inconclusive("recorder errors: %s" % rout.errors[:3])
    raw = lines_at(cases, [i for i, _ in rout.crashes] + list(rout.timeouts))
    for idx, text in rout.crashes:
        v.violation("transfer/crash/child-death", dict(engine=ENGINE, mode="case", case=json.loads(raw[idx]),
                                                       detail={"crashed": True, "stderr": text[-1500:]}))
    for idx in rout.timeouts:
        v.violation("transfer/timeout", dict(engine=ENGINE, mode="case", case=json.loads(raw[idx]), detail={"timeout": True}))
    # traces sampled from (B)
    merged = os.path.join(vlib.sub("traces"), "replay.all.side")
    concat([s for s in sides if os.path.exists(s)], merged)
    bfiles = tc.split_side(merged, "c07replay")
    cfg = tc.trace_cfg()
    tr = []
    for source, files in (("random-histories", rfiles), ("replayed-scenarios", bfiles)):
        if "transfer" in files:
            tr.append((source, judge_traces(v, files["transfer"][0], cfg, source.split("-")[0])))
    st_trace = "skipped: no trace"
    for source, j in tr:
        if source == "random-histories":
            st_trace = binding_selftest_trace(j["traces"], j["dev_traces"] | j["rej_traces"], cfg)
    # received tables judged by Objects!TableWellFormed
    tables = {}
    for source, files in (("random-histories", rfiles), ("replayed-scenarios", bfiles)):
        if "tableobs" in files:
            n, b = ic.validate_table_trace(v, files["tableobs"][0], prop_engine=ENGINE)
            tables[source] = {"tables": n, "rejected": b}
    classes = {}
    for tag, out in outs:
        for k, c in out.classes.items():
            classes[tag + ":" + k] = c
    nontrivial = sum(c for k, c in classes.items() if not k.endswith(":-"))
    failed = _count(s for _, out in outs for _, s, _ in out.failures)
    known_fail = sum(c for s, c in failed.items() if s in DEV_SIG.values())
    n_traces = sum(j["n_traces"] for _, j in tr)
    n_rej = sum(j["rejected"] for _, j in tr)
    samples = vlib.samples_from(gen["send_small"], 2) + vlib.samples_from(gen["adv"], 2)
    for source, j in tr:
        if j["traces"]:
            samples.append({"trace_from": source, "events": [_compact(json.loads(x)) for x in j["traces"][0][1][:8]]})
    total_replayed = sum(out.total for _, out in outs)
    cov = {
        "receiver_write_faults": {"scenarios": o_fault.total, "with_a_fault_fired": o_fault.classes.get("fault", 0)},
        "states": gen["states"], "transitions": gen["transitions"],
        "scenarios": {"send": n_small, "send_n4": n_big, "adversarial": n_adv},
        "traces_validated_against_impl": n_traces - n_rej,
        "trace_events": sum(j["n_events"] for _, j in tr),
        "traces_by_source": {s: j["n_traces"] for s, j in tr},
        "traces_needing_named_deviation": sum(len(j["dev_traces"]) for _, j in tr),
        "packfiles_not_closed_as_designed": sum(j["notes"] for _, j in tr),
        "random_histories": ncases,
        "received_tables_judged": tables,
        "evaluations": total_replayed + n_traces,
        "distinct_nontrivial": nontrivial + known_fail,
        "rule": "one scenario per initial state of TransferGen (send: DAG x tables x split x tables-to-send x common x "
                "pre-populated destination; adv: every permutation of a send's objects, one table optionally corrupted), "
                "each executed on the real code (send scenarios under %s real byte limit(s)); non-trivial = at least one "
                "table object has to be transferred (send) / the stream has to be refused somewhere (adv); classes of the "
                "scenarios that passed are counted by the harness from the scenario line; scenarios that failed with a "
                "known-finding signature are non-trivial too (a table is refused in them)" % ("1 (rotating over 1, 200, 3000, 6000, default)" if quick else "all 5 (n<=3) / 1 rotating (n=4)"),
        "classes": classes,
        "failed_scenarios_by_signature": failed,
        "samples": samples,
        "exhaustive": True,
        "tlc": {"module": "TransferGen", "runs": gen["jobs"], "wall_s": round(gen["wall"], 1), "trace_module": "TraceTransfer",
                "trace_states": sum((j["last"].distinct if j["last"] else 0) for _, j in tr)},
        "self_tests": ["vacuity (-coverage 1: every design action taken in an exploring run, deviation action disabled)",
                       st_replay, st_trace],
    }
    return v.finish("model_checking", cov, ASSUMPTIONS)


def _compact(e):
    keep = {"op": e.get("op")}
    for k in ("n", "par", "tab", "blk", "send", "tts", "common", "src", "dst", "max", "crafted"):
        if e.get("op") == "scn":
            keep[k] = e.get(k)
    if e.get("op") == "pack":
        keep.update(pack=e.get("pack"), objs=e.get("objs"), done=e.get("done"), max=e.get("max"))
    if e.get("op") == "recv":
        keep.update(kind=e.get("kind"), id=e.get("id"), ok=e.get("ok"))
    if e.get("op") == "final":
        keep.update(dst=e.get("dst"), equal=e.get("equal"), problem=e.get("problem"))
    return keep


class _Collect:
    """Stands in for vlib.Verdict during a replay (a Verdict would clear the replay directory)."""

    def __init__(self):
        self.violations = []

    def violation(self, sig, doc):
        self.violations.append(sig)


def replay(path):
    with open(path) as f:
        doc = json.load(f)
    vlib.build_harness()
    cfg = tc.trace_cfg("TraceTransfer.replay.cfg", deviations=False)   # a replay file reports the raw behaviour
    v = _Collect()
    bad = False
    case = None
    scenario = doc.get("scenario")
    if doc.get("mode") == "case":
        case = doc.get("case")
    elif doc.get("mode") in ("trace", "tableobs") and scenario is None:
        tag = ""
        if doc.get("mode") == "trace":
            for e in doc.get("trace", []):
                if e.get("tag"):
                    tag = e["tag"]
                    break
        else:
            tag = doc.get("src", "")
        try:
            t = json.loads(tag)
        except Exception:
            raise vlib.Inconclusive("replay file without a replayable source")
        if "case" in t:
            case = t["case"]
        else:
            scenario = t
    if case is not None:
        cases = os.path.join(vlib.sub("scn"), "one.case.ndjson")
        with open(cases, "w") as f:
            f.write(json.dumps(dict(case, obs=True)) + "\n")
        side = os.path.join(vlib.sub("traces"), "one.side")
        out = vlib.replay("transferrec", cases, nshards=1, side_path=side, timeout=120)
        if out.errors:
            raise vlib.Inconclusive(str(out.errors))
        bad = bool(out.crashes or out.timeouts)
        files = tc.split_side(side, "one")
    elif scenario is not None and "/fault/" in (doc.get("signature") or ""):
        scen = os.path.join(vlib.sub("scn"), "one.ndjson")
        with open(scen, "w") as f:
            f.write(json.dumps(scenario) + "\n")
        bad = False
        # the faults of a scenario are chosen from the seed and the scenario's index: try the whole rotation
        for sd in range(0, 16):
            out = vlib.replay("transferfault", scen, nshards=1, env={"VERIF_SEED": str(sd)}, timeout=120)
            if out.errors:
                raise vlib.Inconclusive(str(out.errors))
            if out.failures or out.crashes or out.timeouts:
                bad = True
                break
        files = {}
    elif scenario is not None:
        scen = os.path.join(vlib.sub("scn"), "one.ndjson")
        sc = dict(scenario)
        lim = (doc.get("detail") or {}).get("limit")
        if sc.get("fam") == "send" and lim is not None:
            sc["limits"] = [lim]
        with open(scen, "w") as f:
            f.write(json.dumps(sc) + "\n")
        side = os.path.join(vlib.sub("traces"), "one.side")
        out = vlib.replay(ENGINE, scen, nshards=1, side_path=side,
                          env={"TRANSFER_LIMITS": "all", "TRANSFER_TRACE_EVERY": "1", "TRANSFER_OBS_EVERY": "1"})
        if out.errors:
            raise vlib.Inconclusive(str(out.errors))
        bad = bool(out.failures or out.crashes or out.timeouts)
        files = tc.split_side(side, "one")
    else:
        raise vlib.Inconclusive("replay file without scenario, case or trace")
    if "transfer" in files:
        j = judge_traces(v, files["transfer"][0], cfg, "replay")
        bad = bad or j["rejected"] > 0
    if "tableobs" in files:
        n, b = ic.validate_table_trace(v, files["tableobs"][0], prop_engine=ENGINE)
        bad = bad or b > 0
    if bad or v.violations:
        print("VIOLATION property=%s replay=%s" % (PROP, path))
        return 1
    return 0
