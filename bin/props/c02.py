"""C02 - a table's identity depends only on its logical content.

(A) RunIndep on IngestGen: for every small input with unique keys every run size gives the same
    table (TLC, with the C01 model).
(C) seeded real-scale tables are ingested under permuted row orders x run sizes (0..k spills) x
    1..16 workers x delimiters, into the map store and into a real badger store, and committed /
    re-committed through the real command line; TraceIngest.tla keeps sumOf : content -> identifier
    and cidOf : identifier -> content and rejects an event that makes identity non-functional or
    non-injective (neighbour tables differ in exactly one cell / column name / column order / key),
    or a re-commit of unchanged content that creates a commit."""
import json, os
import vlib
from props import ingest_common as ic

PROP = "C02"
# the command-line commits are driven by this check only: whatever fails in them (also plain losslessness) is reported here
CLAUSES = {"identity-not-functional", "identity-not-injective", "recommit-same", "recommit-changed", "recommit-config-delimiter", "cli-error",
           "error@cli", "lossless@cli", "oversize-not-refused@cli"}


def run(tier, seed):
    v = vlib.Verdict(PROP, tier, seed)
    vlib.build_harness()
    # (A) model only: RunIndep + Conforms over the small universe (no replay here: C01 does it)
    res = vlib.run_tlc("IngestGen", ic.gen_cfg("quick"), timeout=3000)
    vlib.require_ok(res, "IngestGen")
    ncases, variants = (360, 6) if tier == "quick" else (2400, 10)
    rout, cases, files = ic.real_scale(seed, ncases, variants, 16, prefix="c02", badger=True, cli=True)
    vlib.absorb_replay(v, rout, "ingestrec", cases, crash_sig=ic.crash_sig)
    n_traces = n_events = rej = mine = 0
    if "ingest" in files:
        n_traces, n_events, rej, mine = ic.validate_ingest_trace(v, files["ingest"][0], CLAUSES)
    cov = {
        "states": res.distinct, "transitions": res.generated,
        "traces_validated_against_impl": n_traces - rej,
        "trace_events": n_events,
        "evaluations": n_events,
        "distinct_nontrivial": sum(rout.classes.values()),
        "rule": "one trace per generated table: its variants (row permutation x run size x workers x delimiter x store, CLI "
                "commit/re-commit) and, for kind 'neighbours', tables differing in one cell / column name / column order / key; "
                "distinct_nontrivial counts generated tables (distinct by seed and index)",
        "classes_real": rout.classes,
        "rejections_owned_by_other_properties": rej - mine,
        "samples": [ic.compact_event(e) for e in vlib.samples_from(files.get("ingest", ("", 0))[0], 4)] or [{"note": "none"}],
        "tlc": {"module": "IngestGen", "generated": res.generated, "distinct": res.distinct, "wall_s": round(res.wall, 1)},
    }
    return v.finish("model_checking", cov, [
        "hash collisions of the repository's hash function are outside the model (trusted primitive)",
        "content identity is computed by the harness from the rows encoding/csv yields (columns, key, row set)",
        "identity clauses are only demanded for inputs with unique keys, as the statement says",
    ])


def replay(path):
    with open(path) as f:
        doc = json.load(f)
    sc = doc.get("scenario")
    if not sc:
        raise vlib.Inconclusive("rerun `bin/check C02` with VERIF_SEED=%s" % doc.get("seed"))
    scen = os.path.join(vlib.sub("scn"), "one.ndjson")
    with open(scen, "w") as f:
        f.write(json.dumps(sc) + "\n")
    side = os.path.join(vlib.sub("traces"), "one.side")
    out = vlib.replay("ingestrec", scen, nshards=1, side_path=side, timeout=120)
    files = ic.split_side(side, "one")
    v = vlib.Verdict(PROP, "quick", doc.get("seed", 1))
    v.known_defs = []
    if "ingest" in files:
        ic.validate_ingest_trace(v, files["ingest"][0], CLAUSES)
    if v.violations or out.failures or out.crashes or out.timeouts:
        print("VIOLATION property=%s replay=%s" % (PROP, path))
        return 1
    return 0
