"""C17 - malformed or hostile bytes are rejected with an error, never a crash.

The specification spec/Wire.tla is the format: every Dec...At operator is a TOTAL decoder (Ok or Err for
any byte string).  spec/WireMut.tla enumerates, from that grammar,
  (i)   structured mutations of every valid encoding of a reduced C06 universe (truncation at every
        segment boundary +-1 and mid-segment, every count / length / number field set to 0, +1, 0xFFFF,
        2^24, 0xFFFFFFFF, every label byte altered, the top bit of every segment's first byte flipped,
        trailing garbage, packfile object type 0..7 and lengths up to 2^64-1),
  (ii)  ALL byte strings of length <= L over a 4-letter alphabet for the leaf decoders (string list,
        uint list, block, block index, pkt-line, packfile object),
  (iii) packfiles of well-formed objects that are wrong as a WHOLE (a table whose key column does not
        exist, whose rows are ragged, whose block is empty or missing, a commit without its table ...),
each with the specification's verdict "ok" / "either" / "err" (TLC also checks the model-level theorems of
WireMut: the grammar is prefix-free, an altered label is never accepted, ...).
(B) engine `hostile` feeds every input to every REAL entry point of its kind (objects.Read*From,
Validate*Bytes, objects.Get* over a store holding the bytes, StrListDecoder / UintListDecoder,
pktline.ReadPktLine, packfile.PackfileReader, apiutils.ObjectReceiver.Receive of a packfile holding the
object) in worker subprocesses under an address-space ceiling.  Demanded of every call: it returns - with an
error where the specification says "err" -, never panics, never exceeds the per-call timeout, never
allocates more heap than 64 MiB + 64 x len(input), and a packfile object the receiver refuses leaves the
destination store as it was.

Helpers not in vlib: the supervisor/worker split lives in harness/internal/hostile (a worker that dies or
hangs is attributed to the exact (entry point, input) pair, so the replay child itself never dies);
absorb() here reads the side channel for the 2nd, 3rd ... failure of one input."""
import json, os, random, threading, time
import vlib

PROP = "C17"
ENGINE = "hostile"

RLIMIT_AS = 4 << 30          # measured: the Go runtime + harness need about 1 GiB of address space to start
CALL_TIMEOUT_S = 10
RULE_ALLOC = "heap bytes allocated during one call <= 64 MiB + 64 x len(input)"

MUT_GROUPS_QUICK = [["commit", "pkt", "blkidx", "uintlist"], ["profile", "strlist"], ["table", "block", "pack"]]
MUT_GROUPS_THOROUGH = [["commit"], ["profile"], ["table", "blkidx", "pkt"], ["block", "strlist", "uintlist"], ["pack"]]
RAW_QUICK = {"strlist": 6, "uintlist": 6, "block": 6, "pack": 6, "pkthex": 6, "blkidx": 5, "pkt": 5}
RAW_THOROUGH = {"strlist": 9, "uintlist": 9, "block": 9, "pack": 9, "pkthex": 8, "blkidx": 9, "pkt": 9}
RAW_ALPHABET = {"pkthex": {48, 49, 102, 10, 45}}   # "0" "1" "f" LF and "-" (a sign is not a hex digit)
RAW_DEFAULT_ALPHABET = {0, 1, 2, 255}
PACK_MAGIC = [80, 65, 67, 75, 0, 0, 0, 1]


def write_cfg(name, kinds, mode, thorough, L):
    with open(os.path.join(vlib.spec_copy(), name), "w") as f:
        f.write("SPECIFICATION Spec\nCONSTANTS\n GenKinds = {%s}\n Mode = \"%s\"\n Thorough = %s\n L = %d\n"
                "INVARIANT Inv\nCHECK_DEADLOCK FALSE\n" % (", ".join('"%s"' % k for k in kinds), mode,
                                                           "TRUE" if thorough else "FALSE", L))
    return name


def generate(tier):
    """Runs the TLC processes (at most 4 JVMs at a time).  Returns ([(label, file, TLCResult)])."""
    thorough = tier == "thorough"
    jobs = []
    for gi, kinds in enumerate(MUT_GROUPS_THOROUGH if thorough else MUT_GROUPS_QUICK):
        jobs.append(("mut:" + "+".join(kinds), write_cfg("WireMut.mut.%d.cfg" % gi, kinds, "mut", thorough, 0)))
    raw = RAW_THOROUGH if thorough else RAW_QUICK
    if thorough:
        for k, L in sorted(raw.items(), key=lambda kv: -kv[1]):
            jobs.append(("raw:%s<=%d" % (k, L), write_cfg("WireMut.raw.%s.cfg" % k, [k], "raw", False, L)))
    else:
        byL = {}
        for k, L in raw.items():
            byL.setdefault(L, []).append(k)
        for L, ks in sorted(byL.items()):
            half = (len(ks) + 1) // 2 if len(ks) > 3 else len(ks)
            for part in (ks[:half], ks[half:]):
                if part:
                    jobs.append(("raw:%s<=%d" % ("+".join(sorted(part)), L),
                                 write_cfg("WireMut.raw.%d.%s.cfg" % (L, part[0]), sorted(part), "raw", False, L)))
    jobs.append(("sem", write_cfg("WireMut.sem.cfg", ["rpack"], "sem", thorough, 0)))
    results = [None] * len(jobs)
    errors = []
    sem = threading.Semaphore(4)

    def work(i, label, cfg, out):
        try:
            res = vlib.run_tlc("WireMut", cfg, workers=2, scn_out=out, timeout=2400, heap="2g")
            if not res.ok:
                vlib.log("TLC failed on %s, retrying once:\n%s" % (label, res.output_tail[-1200:]))
                res = vlib.run_tlc("WireMut", cfg, workers=2, scn_out=out, timeout=2400, heap="2g")
            results[i] = res
        except Exception as e:  # noqa
            errors.append(e)
        finally:
            sem.release()

    threads, files = [], []
    for i, (label, cfg) in enumerate(jobs):
        out = os.path.join(vlib.sub("scn"), "hostile.%d.ndjson" % i)
        files.append(out)
        sem.acquire()
        th = threading.Thread(target=work, args=(i, label, cfg, out))
        before = vlib._tlc_seq[0]
        th.start()
        while vlib._tlc_seq[0] == before and th.is_alive():   # run_tlc numbers its metadir first thing (not thread-safe)
            time.sleep(0.01)
        threads.append(th)
    for th in threads:
        th.join()
    if errors:
        raise errors[0] if isinstance(errors[0], vlib.Inconclusive) else vlib.Inconclusive(str(errors[0]))
    out = []
    for (label, _), f, res in zip(jobs, files, results):
        vlib.require_ok(res, "WireMut %s" % label)
        if res.scn == 0:
            raise vlib.Inconclusive("WireMut %s printed no scenario" % label)
        out.append((label, f, res))
    return out


def in_raw_family(kind, runs, raw):
    """Is this byte string also one of the raw strings generated for its kind?"""
    L = raw.get(kind)
    if L is None:
        return False
    bs = [b for b, n in runs for _ in range(n)] if sum(n for _, n in runs) <= L + 8 else None
    if bs is None:
        return False
    if kind == "pack":
        if bs[:8] != PACK_MAGIC:
            return False
        bs = bs[8:]
    return len(bs) <= L and set(bs) <= RAW_ALPHABET.get(kind, RAW_DEFAULT_ALPHABET)


def assemble(parts, tier, seed):
    """One scenario file: inputs distinct per kind (a mutation that yields a byte string which another
    mutation or the raw family also yields is dropped), in a seeded order so that every shard gets the same mix."""
    raw = RAW_THOROUGH if tier == "thorough" else RAW_QUICK
    lines, seen, dropped, per_kind = [], set(), 0, {}
    for label, f, _ in parts:
        with open(f) as fh:
            if label.startswith("raw:"):
                for line in fh:                      # distinct by construction
                    lines.append(line)
                    k = line[2:line.index('"', 2)]
                    per_kind[k + ":raw"] = per_kind.get(k + ":raw", 0) + 1
                continue
            for line in fh:
                d = json.loads(line)
                if d[0] != "rpack":
                    key = (d[0], json.dumps(d[3]))
                    if key in seen or (d[2][0] != "base" and in_raw_family(d[0], d[3], raw)):
                        dropped += 1
                        continue
                    seen.add(key)
                lines.append(line)
                fam = d[0] + (":sem" if d[0] == "rpack" else ":mut")
                per_kind[fam] = per_kind.get(fam, 0) + 1
    random.Random(seed).shuffle(lines)
    scen = os.path.join(vlib.sub("scn"), "hostile.ndjson")
    with open(scen, "w") as out:
        out.writelines(lines)
    vlib.log("inputs per family: %s (dropped %d duplicates)" % (json.dumps(per_kind, sort_keys=True), dropped))
    return scen, len(lines), per_kind, dropped


def corrupt_for_demo(scen):
    """Development aid (binding demonstration): VERIF_C17_CORRUPT=<n> turns the verdict of scenario n into "err"."""
    n = os.environ.get("VERIF_C17_CORRUPT")
    if n is None:
        return
    lines = open(scen).read().split("\n")
    n = int(n) % (len(lines) - 1)
    start = n
    while True:
        d = json.loads(lines[n])
        if d[4] in ("ok", "either") and d[0] != "rpack":
            break
        n = (n + 1) % (len(lines) - 1)
        if n == start:
            raise vlib.Inconclusive("no scenario to corrupt")
    d[4] = "err"
    lines[n] = json.dumps(d, separators=(",", ":"))
    open(scen, "w").write("\n".join(lines))
    vlib.log("binding demo: verdict of scenario %d (%s %s) turned into err" % (n, d[0], d[2]))


def known_matcher():
    import re
    defs = [k for k in vlib.load_known() if k.get("property") == PROP and k.get("status") == "open"]

    def is_known(sig):
        for k in defs:
            if k.get("signature") == sig or (k.get("signature_regex") and re.fullmatch(k["signature_regex"], sig)):
                return True
        return False
    return is_known


def absorb(v, out, scen):
    """Failures arrive as the F line of a scenario (its first failure) and as side-channel documents (the
    others).  Scenario lines are fetched in one pass, and only for signatures that are not known findings."""
    if out.errors:
        raise vlib.Inconclusive("harness errors: %s" % out.errors[:3])
    fails = [(idx, sig, det) for idx, sig, det in out.failures]
    for text in out.side:
        d = json.loads(text)
        fails.append((d["idx"], d["sig"], d.get("detail")))
    is_known = known_matcher()
    need = set(i for i, sig, _ in fails if not is_known(sig)) | set(i for i, _ in out.crashes) | set(out.timeouts)
    lines = {}
    if need:
        with open(scen) as f:
            for i, line in enumerate(f):
                if i in need:
                    lines[i] = json.loads(line)
    by_sig, first, rest = {}, [], []
    for idx, sig, det in sorted(fails, key=lambda t: (t[1], t[2] is None or "observed" not in t[2], t[0])):
        by_sig[sig] = by_sig.get(sig, 0) + 1
        (first if by_sig[sig] == 1 else rest).append((idx, sig, det))
    # every distinct signature gets its replay file before the second scenario of any signature does
    for idx, sig, det in first + rest:
        v.violation(sig, dict(engine=ENGINE, scenario=lines.get(idx), detail=det))
    # the replay child is only a supervisor: if IT dies or hangs the harness is at fault
    if out.crashes or out.timeouts:
        raise vlib.Inconclusive("the supervisor child died or hung (scenarios %s): %s" % (
            [i for i, _ in out.crashes][:5] + list(out.timeouts)[:5], (out.crashes[0][1][-600:] if out.crashes else "")))
    return by_sig, len(set(i for i, _, _ in fails))


def pick_samples(scen):
    want = [("table", "set"), ("commit", "trunc"), ("strlist", "raw"), ("pack", "len"), ("block", "label"), ("rpack", "sem"),
            ("pkthex", "raw"), ("profile", "flip")]
    best = {}
    with open(scen) as f:
        for line in f:
            if len(line) > 700:
                continue
            d = json.loads(line)
            key = (d[0], d[2][0])
            if key in want and (key not in best or (d[0] != "rpack" and 6 < len(d[3]) > len(best[key][3]) and len(line) < 420)):
                best[key] = d
            if len(best) == len(want) and all(len(json.dumps(b)) > 200 for b in best.values()):
                break
    return [best[k] for k in want if k in best]


def run(tier, seed):
    v = vlib.Verdict(PROP, tier, seed)
    vlib.build_harness()
    parts = generate(tier)
    scen, n_inputs, per_family, dropped = assemble(parts, tier, seed)
    corrupt_for_demo(scen)
    out = vlib.replay(ENGINE, scen, timeout=300, rlimit_as=RLIMIT_AS,
                      env={"HOSTILE_CALL_TIMEOUT_S": str(CALL_TIMEOUT_S)})
    by_sig, failed_inputs = absorb(v, out, scen)
    if out.total != n_inputs and not out.truncated:
        raise vlib.Inconclusive("replayed %d of %d inputs" % (out.total, n_inputs))
    # class labels of the inputs on which every entry point behaved: "<class>|<calls>"
    classes, calls_ok = {}, 0
    for label, c in out.classes.items():
        cls, _, ncalls = label.rpartition("|")
        classes[cls] = classes.get(cls, 0) + c
        calls_ok += int(ncalls) * c
    trivial = classes.get("-", 0)
    cov = {
        "evaluations": out.total,
        "distinct_nontrivial": out.total - trivial,
        "rule": "every input is one initial state of WireMut (TLC prints it with the specification's verdict); inputs are "
                "distinct byte strings per kind (mutations that coincide with another mutation or with a raw string are "
                "dropped before replay: %d this run); each is fed to every real entry point of its kind in a worker process "
                "under RLIMIT_AS = %d GiB with a %d s per-call timeout. Non-trivial = anything but an unmutated valid encoding "
                "(class \"-\"); the count is inputs replayed minus the unmutated ones among those on which every entry point "
                "behaved (an unmutated encoding never fails: that is property C06). Allocation rule: %s" % (
                    dropped, RLIMIT_AS >> 30, CALL_TIMEOUT_S, RULE_ALLOC),
        "samples": pick_samples(scen),
        "states": sum(r.distinct for _, _, r in parts),
        "transitions": sum(r.generated for _, _, r in parts),
        "exhaustive": True,
        "inputs_per_family": per_family,
        "inputs_all_entry_points_behaved": out.passed,
        "inputs_with_a_failure_or_known_finding": failed_inputs,
        "entry_point_calls_on_passing_inputs": calls_ok,
        "failures_by_signature": by_sig,
        "classes": classes,
        "raw_max_length": RAW_THOROUGH if tier == "thorough" else RAW_QUICK,
        "tlc": [{"family": label, "scenarios": r.scn, "generated": r.generated, "distinct": r.distinct,
                 "wall_s": round(r.wall, 1)} for label, _, r in parts],
    }
    return v.finish("exploration", cov, [
        "bounded structured exploration, not coverage-guided fuzzing: a defect reachable only by a byte pattern outside the "
        "grammar-derived mutations, the short strings over {00,01,02,FF} ({'0','1','f',LF} for pkt-lines) and the listed "
        "whole-packfile inconsistencies is not found (DESIGN section 7)",
        "allocation and time ceilings are measured by the harness (runtime/metrics heap allocation counter around each call, "
        "RLIMIT_AS on the worker processes, a watchdog per call); they are not derived from the specification",
        "an error is demanded only where the specification's total decoder says \"err\"; where it says \"ok\" or \"either\" "
        "(trailing bytes after a valid encoding, another packfile version, an explicit empty type-0 object, a pkt-line "
        "without its newline) both outcomes are accepted - that valid encodings decode is property C06",
        "functions without an error result (StrListDecoder.Decode, UintListDecoder.Decode) may refuse by panicking with an "
        "error value that is not a runtime error; a runtime error (index out of range ...) counts as a crash",
        "meow hashing and s2 compression are trusted primitives: the harness uses them to place the bytes in a store and to "
        "wrap a block for the packfile; objects are received through the real PackfileWriter (sender side = property C07)",
        "the destination store is wrgl's in-memory objects store; after a refused packfile object it must equal its prior "
        "state plus the objects the receiver reported as saved before; block indices (blkidx/), which are derived from "
        "stored blocks, content addressed and referenced by nothing, are not counted",
    ])


def replay(path):
    with open(path) as f:
        doc = json.load(f)
    if not doc.get("scenario"):
        raise vlib.Inconclusive("replay file without a scenario")
    vlib.build_harness()
    scen = os.path.join(vlib.sub("scn"), "one.ndjson")
    with open(scen, "w") as f:
        f.write(json.dumps(doc["scenario"], separators=(",", ":")) + "\n")
    out = vlib.replay(ENGINE, scen, nshards=1, timeout=300, rlimit_as=RLIMIT_AS,
                      env={"HOSTILE_CALL_TIMEOUT_S": str(CALL_TIMEOUT_S)})
    if out.errors or out.crashes or out.timeouts:
        raise vlib.Inconclusive(str(out.errors or out.crashes or out.timeouts))
    sigs = [sig for _, sig, _ in out.failures] + [json.loads(t)["sig"] for t in out.side]
    if sigs:
        for s in sigs:
            vlib.log("still fails:", s)
        print("VIOLATION property=%s replay=%s" % (PROP, path))
        return 1
    return 0
