"""C04 - diff reports exactly the rows added, removed and modified between two tables.

(A) TLC checks on spec/DiffGen.tla (Diff.tla + all pairs of small tables) the model-level theorem:
    the events computed through the block windows (findOverlappingBlocks transcribed, two passes)
    equal the set-theoretic diff for EVERY pair, Diff(t,t) = {}, Diff(t2,t1) = Swap(Diff(t1,t2)),
    every window in bounds.  A failure here is a problem of the specification (exit 2).
(B) every pair (one TLC initial state = one scenario line with the expected events) is built for
    real by cluster scaling (abstract key -> S = 255/B real keys, so real 255-row blocks are the
    model's B-row blocks) through the real ingest, run through the real diff.DiffTables in child
    processes (a panic in the library goroutine kills only the child and is attributed to the pair)
    and the projected events + the rows found at the events' offsets are compared with S x the
    specification's events.  Pairs without content id 2 are also run as no-PK tables.
(C) seeded real-scale pairs with nothing aligned to blocks (random keys, 0..3 blocks a side,
    composite keys, no-PK tables, changes at block edges) are executed the same way; the recorded
    events are validated by TLC (TraceDiff.tla) against the set-theoretic definition only.

quick   : all 9^4 pairs on 4 keys at B=3 (S=85) and at B=1 (S=255, up to 4 blocks a side), 200 recorded pairs
thorough: all 9^6 pairs on 6 keys at B=3 (S=85) and at B=1 (S=255, up to 6 blocks a side), 4000 recorded pairs"""
import json, os, threading, time
import vlib

PROP = "C04"
ENGINE = "diff"

# (N, B) universes per tier; each is cut into slices (content id of key 1 in t1 / t2) that run as
# separate TLC processes, because TLC computes initial states with a single thread
TIERS = {
    "quick": {"universes": [(4, 3, 1), (4, 1, 1)], "rec": 200, "huge": 1030},
    "thorough": {"universes": [(6, 3, 9), (6, 1, 9)], "rec": 4000, "huge": 2050},
}


def _slices(n):
    if n == 1:
        return [("{0,1,2}", "{0,1,2}")]
    if n == 3:
        return [("{%d}" % a, "{0,1,2}") for a in range(3)]
    return [("{%d}" % a, "{%d}" % b) for a in range(3) for b in range(3)]


def _cfg(n, b, f1, f2, tag):
    name = "DiffGen.%s.cfg" % tag
    with open(os.path.join(vlib.spec_copy(), name), "w") as f:
        f.write("SPECIFICATION Spec\nCONSTANTS N = %d\n B = %d\n Fix1 = %s\n Fix2 = %s\n"
                "INVARIANT DesignOK\nCHECK_DEADLOCK FALSE\n" % (n, b, f1, f2))
    return name


def generate(tier, scen):
    """Runs every slice of every universe of the tier (in parallel), concatenates the scenario
    lines into scen.  Returns (states, generated, wall, per-universe list)."""
    jobs = []
    for (n, b, nsl) in TIERS[tier]["universes"]:
        for i, (f1, f2) in enumerate(_slices(nsl)):
            tag = "n%db%ds%d" % (n, b, i)
            jobs.append((n, b, _cfg(n, b, f1, f2, tag), os.path.join(vlib.sub("scn"), "diff-%s.ndjson" % tag)))
    results = [None] * len(jobs)
    errors = []
    workers = max(1, vlib.NCPU // max(1, len(jobs)))

    # every slice is a small model (<= 9^5 states) whose only bulk is the printed scenarios: a small
    # heap and few GC threads per JVM, and never more JVMs than cores allow
    gate = threading.Semaphore(max(1, min(12, vlib.NCPU - 2)))
    start = threading.Lock()

    def one(i):
        n, b, cfg, out = jobs[i]
        try:
            with gate:
                with start:      # run_tlc numbers its metadirs with a plain counter: calls >= 0.3 s apart
                    time.sleep(0.3)
                results[i] = vlib.run_tlc("DiffGen", cfg, workers=workers, scn_out=out, timeout=3000, heap="1g",
                                          env={"JAVA_TOOL_OPTIONS": "-XX:ParallelGCThreads=2"})
        except Exception as e:  # noqa
            errors.append(e)

    t0 = time.time()
    ths = []
    for i in range(len(jobs)):
        th = threading.Thread(target=one, args=(i,))
        th.start()
        ths.append(th)
    for th in ths:
        th.join()
    if errors:
        raise vlib.Inconclusive("TLC: %s" % errors[0])
    per = {}
    states = generated = 0
    with open(scen, "w") as f:
        for (n, b, cfg, out), res in zip(jobs, results):
            vlib.require_ok(res, "DiffGen/" + cfg)
            if res.scn != res.distinct:
                raise vlib.Inconclusive("%s: %d scenario lines for %d initial states" % (cfg, res.scn, res.distinct))
            states += res.distinct
            generated += res.generated
            key = "N=%d,B=%d" % (n, b)
            per[key] = per.get(key, 0) + res.distinct
            with open(out) as g:
                for line in g:
                    f.write(line)
    for (n, b, nsl) in TIERS[tier]["universes"]:
        if per.get("N=%d,B=%d" % (n, b)) != 9 ** n:
            raise vlib.Inconclusive("universe N=%d,B=%d: %s pairs instead of %d" % (n, b, per.get("N=%d,B=%d" % (n, b)), 9 ** n))
    return states, generated, time.time() - t0, per


def _one_side_empty(sc):
    if isinstance(sc, dict):
        return (len(sc["t1"]) == 0) != (len(sc["t2"]) == 0)
    return (not any(sc[1])) != (not any(sc[2]))


def crash_sig(sc, text):
    """diff/crash/<feature>: empty-side = exactly one table of the pair has no rows and the child died
    with the slice-bounds panic of getBlockIndices; anything else is a different signature."""
    if _one_side_empty(sc):
        if "slice bounds out of range [-1:]" in text and "getBlockIndices" in text:
            return "diff/crash/empty-side"
        return "diff/crash/empty-side-other-panic"
    return "diff/crash/nonempty"


def split_by_risk(scen):
    """Scheduling only: pairs with exactly one empty side (which kill their child on the pinned
    tree) go to their own file, so that the children of the bulk keep their table caches."""
    bulk, risky = scen + ".bulk", scen + ".emptyside"
    with open(scen) as f, open(bulk, "w") as fb, open(risky, "w") as fr:
        for line in f:
            (fr if _one_side_empty(json.loads(line)) else fb).write(line)
    return bulk, risky


def _merge(a, b):
    a.total += b.total
    a.passed += b.passed
    for k, c in b.classes.items():
        a.classes[k] = a.classes.get(k, 0) + c
    return a


def run_recorded(v, recfile, tag="rec"):
    """Executes recorded pairs in children, assembles the trace, validates it with TLC.
    Returns (outcome, n_traces, n_events, n_rejected, sample, n_validated)."""
    side = os.path.join(vlib.sub("traces"), "diff-%s.side" % tag)
    out = vlib.replay(ENGINE, recfile, side_path=side, timeout=60)
    vlib.absorb_replay(v, out, ENGINE, recfile, crash_sig=crash_sig, extra={"mode": "trace"})
    docs = []
    with open(side) as f:
        for line in f:
            if line.strip():
                docs.append(json.loads(line))
    docs.sort(key=lambda d: d["id"])
    trace = os.path.join(vlib.sub("traces"), "diff-%s.ndjson" % tag)
    with open(trace, "w") as f:
        for d in docs:
            f.write(json.dumps({"op": "reset", "id": d["id"], "t1": [], "t2": [], "ev": [], "err": ""},
                               separators=(",", ":")) + "\n")
            f.write(json.dumps(d, separators=(",", ":")) + "\n")
    if not docs:
        return out, 0, 0, 0, None, 0
    n_traces, n_events, rejections, last = vlib.validate_traces("TraceDiff", "TraceDiff.cfg", trace, heap="8g",
                                                                max_rejections=10)
    byid = {}
    with open(recfile) as f:
        for line in f:
            d = json.loads(line)
            byid[d["id"]] = d
    for r in rejections:
        ev = json.loads(r["event"])
        rows1 = sum(1 for x in ev["t1"] if x)
        rows2 = sum(1 for x in ev["t2"] if x)
        feat = "empty-side" if (rows1 == 0) != (rows2 == 0) else ("single-block" if max(rows1, rows2) <= 255 else "multi-block")
        v.violation("diff/trace-rejected/%s" % feat,
                    dict(engine=ENGINE, mode="trace", scenario=byid.get(ev["id"]), event=ev,
                         detail="TraceDiff.tla rejected the recorded events: not the set-theoretic diff of t1 and t2 "
                                "(or a key twice / an offset addressing another row / an error)"))
    sample = min(docs, key=lambda d: len(d["t1"]) + (0 if d["ev"] else 10 ** 6))
    # when the rejection cap stopped the validation, the remaining traces were not examined
    validated = (n_traces - len(rejections)) if (last is not None and last.ok) else 0
    return out, n_traces, n_events, len(rejections), sample, validated


def run(tier, seed):
    v = vlib.Verdict(PROP, tier, seed)
    vlib.build_harness()
    # (A) + generation for (B)
    scen = os.path.join(vlib.sub("scn"), "diff.ndjson")
    states, generated, tlc_wall, per = generate(tier, scen)
    vlib.log("TLC: %d pairs (%s) checked and exported in %.1fs" % (states, per, tlc_wall))
    # (B)
    bulk, risky = split_by_risk(scen)
    t0 = time.time()
    out = vlib.replay(ENGINE, bulk)
    vlib.absorb_replay(v, out, ENGINE, bulk, crash_sig=crash_sig)
    # vlib.replay gives up on a shard after 200 child restarts: feed the pairs that may kill their
    # child in portions of at most 100 per shard
    with open(risky) as f:
        rlines = f.readlines()
    step = 100 * vlib.NCPU
    for c in range(0, len(rlines), step):
        part = "%s.%d" % (risky, c // step)
        with open(part, "w") as f:
            f.writelines(rlines[c:c + step])
        out2 = vlib.replay(ENGINE, part)
        vlib.absorb_replay(v, out2, ENGINE, part, crash_sig=crash_sig)
        _merge(out, out2)
    vlib.log("replayed %d pairs on the real diff in %.1fs" % (out.total, time.time() - t0))
    if out.total != states and not out.truncated:
        raise vlib.Inconclusive("replayed %d of %d pairs" % (out.total, states))
    # the command-line path (`wrgl diff x y --no-gui`): a seeded sample of the pairs, both tables committed for real
    cscen = os.path.join(vlib.sub("scn"), "diff-cli.ndjson")
    with open(bulk) as f:
        blines = f.readlines()
    want = 150 if tier == "quick" else 1500
    stepc = max(1, len(blines) // want)
    with open(cscen, "w") as f:
        f.writelines(blines[(seed % stepc)::stepc])
    cout = vlib.replay("diffcli", cscen, timeout=120)
    vlib.absorb_replay(v, cout, "diffcli", cscen, crash_sig=lambda sc, t: "diff/cli/crash")
    if not cout.classes.get("cli") or not cout.classes.get("cli-files"):
        raise vlib.Inconclusive("no pair went through the command line / no pair as two CSV files (vacuous)")
    # (C)
    recfile = os.path.join(vlib.sub("scn"), "diff-rec.ndjson")
    nrec = TIERS[tier]["rec"]
    p = vlib.run_record(ENGINE, ["--seed", str(seed), "--n", str(nrec), "--out", recfile, "--huge", str(TIERS[tier]["huge"])])
    if p.returncode != 0:
        raise vlib.Inconclusive("recorder failed: " + p.stderr[-2000:])
    t0 = time.time()
    rout, n_traces, n_events, n_rej, sample, n_valid = run_recorded(v, recfile)
    vlib.log("recorded pairs: %d executed (%d died), %d traces, %d accepted, %d rejected, %.1fs" %
             (rout.total, len(rout.crashes), n_traces, n_valid, n_rej, time.time() - t0))
    if rout.total != nrec:
        raise vlib.Inconclusive("executed %d of %d recorded pairs" % (rout.total, nrec))
    classes = dict(out.classes)
    for k, c in rout.classes.items():
        classes[k] = classes.get(k, 0) + c
    nontrivial = sum(c for k, c in classes.items() if k != "-")
    samples = vlib.samples_from(bulk, 3) + vlib.samples_from(risky, 1)
    if sample is not None:
        samples.append(sample)
    cov = {
        "command_line_pairs": {"run": cout.total, "through_wrgl_diff": cout.classes.get("cli", 0), "as_two_csv_files": cout.classes.get("cli-files", 0), "passed": cout.passed},
        "states": states, "transitions": generated,
        "traces_validated_against_impl": n_valid,
        "trace_events": n_events,
        "evaluations": out.total + rout.total,
        "distinct_nontrivial": nontrivial,
        "rule": "every pair (t1,t2) of tables over N abstract keys x content ids {absent,1,2} is one TLC initial state "
                "= one scenario (all distinct by construction; universes " + ", ".join("%s: %d" % kv for kv in sorted(per.items())) +
                "); recorded pairs are distinct seeded draws.  Non-trivial = at least one of the two REAL tables spans "
                ">= 2 blocks of 255 rows and the key sets differ (counted by the harness from the stored tables); "
                "classes S<scale>:<blocks1>x<blocks2> resp. rec:<shape>; '-' = trivial",
        "classes": classes,
        "pairs_per_universe": per,
        "recorded_pairs": nrec,
        "samples": samples,
        "exhaustive": True,
        "tlc": {"module": "DiffGen", "generated": generated, "distinct": states, "wall_s": round(tlc_wall, 1),
                "invariant": "DesignOK (Events = Expected, Diff(t,t) = {}, Diff(t2,t1) = Swap(Diff(t1,t2)), windows in bounds)"},
    }
    return v.finish("model_checking", cov, [
        "tables are built with unique non-empty keys through the real ingest and judged as stored (ingest itself is C01/C03)",
        "cluster scaling: abstract key k stands for S = 255/B real keys k-000..k-(S-1); real blocks are then the model's blocks",
        "the event's key is identified by its 16-byte PK hash (meow over wrgl's own string-list encoding, as the block index does)",
        "offsets are checked by reading the row stored at Offset / OldOffset and comparing its key with the event's key",
        "event order, the Sum/OldSum values and progress reporting are not part of the statement and are not compared",
        "wrgl diff --no-gui (CLI rendering) is not exercised by this engine",
    ])


class _Collector:
    """Stands in for vlib.Verdict during --replay (which must neither delete nor write replay files)."""

    def __init__(self):
        self.violations = []

    def violation(self, sig, doc):
        self.violations.append(sig)


def replay(path):
    with open(path) as f:
        doc = json.load(f)
    v = _Collector()
    vlib.build_harness()
    scen = os.path.join(vlib.sub("scn"), "one.ndjson")
    with open(scen, "w") as f:
        f.write(json.dumps(doc["scenario"]) + "\n")
    if isinstance(doc["scenario"], dict):
        run_recorded(v, scen, tag="replay")
    else:
        out = vlib.replay(doc.get("engine", ENGINE) if doc.get("engine") in ("diffcli",) else ENGINE, scen, nshards=1)
        vlib.absorb_replay(v, out, ENGINE, scen, crash_sig=crash_sig)
    if v.violations:
        print("VIOLATION property=%s replay=%s   (%s)" % (PROP, path, v.violations[0]))
        return 1
    return 0
