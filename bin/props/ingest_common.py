"""Shared pipeline of the ingest engine (C01, C02, C03; C19 has its own generator).

 (A)   TLC checks on spec/IngestGen.tla that the design (spill / k-way merge / dedupe / cut)
       meets the contract of spec/Ingest.tla for every small input x key shape x run size.
 (B)   every scenario TLC enumerates is ingested by the real code (padding rows push the
       interesting rows across a real 255-row block boundary) and the stored rows compared
       with the expectation TLC exported.
 (C)   seeded real-scale tables (awkward cells, duplicates at block boundaries, big cells,
       delimiters, run sizes, worker counts) are ingested for real; the projected events are
       validated by TraceIngest.tla (losslessness, identity) and the projected stored tables by
       TraceTable.tla (structure, indices, doctor)."""
import json, os
import vlib


def gen_cfg(tier, name="IngestGen", sorter=False):
    d = vlib.spec_copy()
    fn = "%s.%s%s.cfg" % (name, tier, ".sorter" if sorter else "")
    if sorter:
        rems = 'Rems = {{}, {"f0"}, {"f1"}, {"v"}, {"f0", "f1"}, {"f0", "v"}, {"f1", "v"}, {"f0", "f1", "v"}, {"f1", "t"}, {"f0", "t", "v"}}'
        if tier == "quick":
            consts = 'B = 2\n N = 3\n Shapes = {"n", "a", "b", "ab", "ba"}\n Runs = {0, 1, 2}\n Pads = {0, 254}\n ' + rems
        else:
            consts = 'B = 2\n N = 4\n Shapes = {"n", "a", "b", "ab", "ba"}\n Runs = {0, 1, 2}\n Pads = {0, 254, 255}\n ' + rems
        with open(os.path.join(d, fn), "w") as f:
            f.write("SPECIFICATION Spec\nCONSTANTS %s\nINVARIANTS Conforms RunIndep\nCHECK_DEADLOCK FALSE\n" % consts)
        return fn
    if tier == "quick":
        consts = 'B = 2\n N = 4\n Shapes = {"n", "a", "b", "ba"}\n Runs = {0, 1, 2}\n Pads = {0, 254}'
    else:
        consts = 'B = 2\n N = 5\n Shapes = {"n", "a", "b", "ab", "ba"}\n Runs = {0, 1, 2}\n Pads = {0, 252, 253, 254, 255}'
    consts += '\n Rems = {{}}'
    with open(os.path.join(d, fn), "w") as f:
        f.write("SPECIFICATION Spec\nCONSTANTS %s\nINVARIANTS Conforms RunIndep\nCHECK_DEADLOCK FALSE\n" % consts)
    return fn


def split_side(side_path, prefix):
    """Side-channel lines -> {kind: trace file}.  A line is either one document (a table
    observation emitted during scenario replay) or a batch {kind, docs} that stays contiguous."""
    files = {}

    def out(kind):
        if kind not in files:
            p = os.path.join(vlib.sub("traces"), "%s.%s.ndjson" % (prefix, kind))
            files[kind] = [p, open(p, "w"), 0]
            if kind == "tableobs":
                files[kind][1].write('{"op":"reset"}\n')
        return files[kind]

    if os.path.exists(side_path):
        with open(side_path) as f:
            for line in f:
                line = line.strip()
                if not line:
                    continue
                doc = json.loads(line)
                if "kind" in doc and "docs" in doc:
                    o = out(doc["kind"])
                    for d in doc["docs"]:
                        o[1].write(json.dumps(d) + "\n")
                        o[2] += 1
                else:
                    o = out(doc.get("op", "misc"))
                    o[1].write(line + "\n")
                    o[2] += 1
    res = {}
    for k, (p, fh, n) in files.items():
        fh.close()
        res[k] = (p, n)
    return res


def small_universe(v, tier):
    """(A)+(B).  Returns (tlc result, replay outcome, scenario file, table-observation trace or None)."""
    scen = os.path.join(vlib.sub("scn"), "ingest.ndjson")
    res = vlib.run_tlc("IngestGen", gen_cfg(tier), scn_out=scen, timeout=3000)
    vlib.require_ok(res, "IngestGen")
    side = os.path.join(vlib.sub("traces"), "ingest.side")
    out = vlib.replay("ingest", scen, side_path=side)
    files = split_side(side, "small")
    return res, out, scen, files.get("tableobs")


def real_scale(seed, ncases, variants, maxworkers, prefix="real", kinds=None, badger=False, cli=False, huge=0):
    """(C) driver.  Returns (outcome, case file, {kind: (trace path, n)}).
    huge > 0: one more case, a table of more than `huge` full blocks (first, so that it runs beside the others)."""
    cases = os.path.join(vlib.sub("scn"), "%s.cases.ndjson" % prefix)
    with open(cases, "w") as f:
        if huge:
            f.write(json.dumps({"seed": seed, "idx": 0, "variants": 2, "maxworkers": maxworkers, "badger": False,
                                "cli": False, "huge": huge}) + "\n")
            f.write(json.dumps({"seed": seed, "idx": 0, "variants": 2, "maxworkers": maxworkers, "badger": False,
                                "cli": False, "fat": 400 if huge < 2000 else 1200}) + "\n")
        for i in range(ncases):
            f.write(json.dumps({"seed": seed, "idx": i, "variants": variants, "maxworkers": maxworkers,
                                "badger": badger, "cli": cli and i % 3 == 0}) + "\n")
    side = os.path.join(vlib.sub("traces"), "%s.side" % prefix)
    out = vlib.replay("ingestrec", cases, side_path=side, timeout=120)
    return out, cases, split_side(side, prefix)


def case_of_trace(trace_lines):
    """The configuration of the first event after reset identifies the generated case."""
    for ln in trace_lines:
        try:
            d = json.loads(ln)
        except Exception:
            continue
        if d.get("op") == "ingest":
            return d.get("cfg", {})
    return {}


def find_case(trace_lines):
    """The generating case spec travels in the first event's cfg (seed, idx...)."""
    for ln in trace_lines:
        try:
            d = json.loads(ln)
        except Exception:
            continue
        c = d.get("cfg") or {}
        if "case" in c:
            return c["case"]
    return None


def compact_event(ev):
    e = dict(ev)
    for k in ("inkeys", "inids", "out"):
        if isinstance(e.get(k), list) and len(e[k]) > 40:
            e[k] = e[k][:40] + ["... %d more" % (len(e[k]) - 40)]
    return e


def validate_ingest_trace(v, trace, clauses, prop_engine="ingest"):
    """TraceIngest over the real-scale trace.  Only rejections whose failing clause is in
    `clauses` belong to the calling property; others are left to the property that owns them."""
    n_traces, n_events, rejections, last = vlib.validate_traces("TraceIngest", "TraceIngest.cfg", trace, max_rejections=12)
    mine = 0
    for r in rejections:
        ev = json.loads(r["event"])
        cfg = ev.get("cfg", {})
        # "<clause>@<kind>" in clauses: the clause belongs to the caller for events of that kind only
        if r["clause"] not in clauses and "%s@%s" % (r["clause"], cfg.get("kind", "?")) not in clauses:
            continue
        mine += 1
        v.violation("ingest/trace-%s/%s" % (r["clause"], cfg.get("kind", "?")),
                    dict(engine=prop_engine, mode="case", case={"seed": cfg.get("seed"), "kind": cfg.get("kind")},
                         scenario=find_case(r["trace"]),
                         first_cfg=case_of_trace(r["trace"]), clause=r["clause"], event=compact_event(ev)))
    return n_traces, n_events, len(rejections), mine


def validate_table_trace(v, trace, prop_engine="table"):
    """One TLC run of TraceTable judges every observed table; broken ones are printed as
    BROKEN <line> <clause> and become violations."""
    lines = open(trace).read().splitlines()
    res = vlib.run_tlc("TraceTable", "TraceTable.cfg", workers=1, env={"TRACE": trace}, timeout=1800)
    if res.rejected_at is not None:
        raise vlib.Inconclusive("TraceTable stopped at line %d:\n%s" % (res.rejected_at, res.output_tail))
    if not res.ok and not res.broken:
        raise vlib.Inconclusive("TraceTable failed without BROKEN lines:\n" + res.output_tail)
    for ln, clause in sorted(res.broken.items()):
        doc = json.loads(lines[ln - 1])
        small = dict(doc)
        for k in ("blocks", "blkidx"):
            small[k] = "elided (%d blocks)" % len(doc.get(k, []))
        v.violation("table/%s/%s" % (doc.get("producer", "?"), clause),
                    dict(engine=prop_engine, mode="tableobs", producer=doc.get("producer"), src=doc.get("src", ""),
                         clause=clause, obs=small))
    n = sum(1 for x in lines if '"op":"tableobs"' in x or '"op": "tableobs"' in x)
    return n, len(res.broken)


def crash_sig(sc, text):
    kind = "?"
    if "idx" in sc:
        kinds = ["plain", "plain", "dups", "dups", "big", "oversize", "neighbours"]
        kind = kinds[sc["idx"] % len(kinds)]
        return "ingest/crash/" + kind
    return "ingest/crash/small"
