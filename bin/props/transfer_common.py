"""Shared pieces of the transfer engine (C07; table observations for C03).

  * cfg writers for spec/TransferGen.tla and spec/TraceTransfer.tla,
  * bounded parallel TLC generation (several cfgs, at most MAX_JVMS JVMs at a time, heap capped),
  * the seeded real-scale recorder (harness child `transferrec`: random histories of 10-25
    commits over tables that reuse blocks, sent for real through ObjectSender / packfile /
    ObjectReceiver), its side channel split into transfer traces and table observations,
  * a trace validator that also collects the DEV (named deviation) and NOTE lines,
  * table_observations(tier, seed): the hook bin/props/c03.py picks up.

Helpers kept here because vlib lacks them: run_tlc_many (parallel TLC with a JVM cap),
validate (trace validation with DEV/NOTE collection)."""
import json, os, threading, time
import vlib
from props import ingest_common as ic

ENGINE = "transfer"
MAX_JVMS = 4
HEAP = "2g"


def write_cfg(name, text):
    with open(os.path.join(vlib.spec_copy(), name), "w") as f:
        f.write(text)
    return name


def gen_cfg(name, family, n, min_n, d0mode, explore, maxes="{1}", ttsmode="all", advmax=6, shard=0, nshards=1):
    inv = ""
    if explore:
        if family == "send":
            inv = ("INVARIANT OrderAccepted\nINVARIANT DstSound\nINVARIANT DstGrows\nINVARIANT AtDone\n"
                   "PROPERTY NoOrphanAccept\nCHECK_DEADLOCK TRUE\n")
        else:
            inv = "INVARIANT DstSound\nINVARIANT DstGrows\nINVARIANT AdvDone\nPROPERTY NoOrphanAccept\nCHECK_DEADLOCK TRUE\n"
    else:
        inv = "CHECK_DEADLOCK FALSE\n"
    return write_cfg(name,
                     'SPECIFICATION %s\nCONSTANTS N = %d\n MinN = %d\n Family = "%s"\n D0Mode = "%s"\n'
                     ' TtsMode = "%s"\n Maxes = %s\n AdvMaxObjs = %d\n Shard = %d\n NShards = %d\n KnownDeviations = {}\n%s'
                     % ("Spec" if explore else "SpecPrint", n, min_n, family, d0mode, ttsmode, maxes, advmax, shard, nshards, inv))


def trace_cfg(name="TraceTransfer.cfg", deviations=True):
    return write_cfg(name, "SPECIFICATION TSpec\nCONSTANT KnownDeviations = %s\nCONSTRAINT Constr\n"
                           "POSTCONDITION Accepted\nCHECK_DEADLOCK FALSE\n" % ('{"tableFirst"}' if deviations else "{}"))


def run_tlc_many(jobs, timeout=3000):
    """jobs: list of dict(cfg, scn_out, coverage, what).  Runs TransferGen on each, at most MAX_JVMS
    at a time.  Returns the TLCResults in order; raises Inconclusive when one fails."""
    results = [None] * len(jobs)
    errors = []
    sem = threading.Semaphore(MAX_JVMS)
    workers = max(2, vlib.NCPU // min(MAX_JVMS, max(1, len(jobs))))

    def one(k):
        with sem:
            try:
                results[k] = vlib.run_tlc("TransferGen", jobs[k]["cfg"], workers=workers, scn_out=jobs[k].get("scn_out"),
                                          timeout=timeout, heap=HEAP, coverage=jobs[k].get("coverage", False))
            except Exception as e:  # noqa
                errors.append(e)

    ths = []
    for k in range(len(jobs)):
        th = threading.Thread(target=one, args=(k,))
        th.start()
        ths.append(th)
        time.sleep(0.4)   # vlib.run_tlc numbers its metadirs without a lock
    for th in ths:
        th.join()
    if errors:
        raise vlib.Inconclusive("TLC failed: %s" % errors[0])
    for k, r in enumerate(results):
        vlib.require_ok(r, jobs[k].get("what", jobs[k]["cfg"]))
    return results


def split_side(side_path, prefix):
    """Side-channel lines -> {kind: (trace file, n)}: batches {kind, docs} stay contiguous, single
    documents go by their "op" (table observations).  Like ingest_common.split_side, but lines are
    written compactly ("op":"reset" without a space is what vlib.split_traces looks for)."""
    files = {}

    def out(kind):
        if kind not in files:
            p = os.path.join(vlib.sub("traces"), "%s.%s.ndjson" % (prefix, kind))
            files[kind] = [p, open(p, "w"), 0]
            if kind == "tableobs":
                files[kind][1].write('{"op":"reset"}\n')
        return files[kind]

    if os.path.exists(side_path):
        with open(side_path) as f:
            for line in f:
                line = line.strip()
                if not line:
                    continue
                doc = json.loads(line)
                if "kind" in doc and "docs" in doc:
                    o = out(doc["kind"])
                    for d in doc["docs"]:
                        o[1].write(json.dumps(d, separators=(",", ":")) + "\n")
                        o[2] += 1
                else:
                    o = out(doc.get("op", "misc"))
                    o[1].write(line + "\n")
                    o[2] += 1
    res = {}
    for k, (p, fh, n) in files.items():
        fh.close()
        res[k] = (p, n)
    return res


def record(seed, ncases, prefix, obs_every=0, adv_every=2, timeout=120):
    """Seeded random histories through the real code.  Returns (outcome, case file,
    {kind: (path, n)}) with kinds "transfer" (trace) and "tableobs"."""
    cases = os.path.join(vlib.sub("scn"), "%s.cases.ndjson" % prefix)
    with open(cases, "w") as f:
        for i in range(ncases):
            f.write(json.dumps({"seed": seed, "idx": i, "obs": bool(obs_every) and i % obs_every == 0,
                                "adv": bool(adv_every) and i % adv_every == 1}) + "\n")
    side = os.path.join(vlib.sub("traces"), "%s.side" % prefix)
    out = vlib.replay("transferrec", cases, side_path=side, timeout=timeout)
    return out, cases, split_side(side, prefix)


def validate(trace_path, cfg, max_rejections=5, label="tr"):
    """TLC (TraceTransfer) over the concatenated traces.  Returns (n_traces, n_events, rejections,
    devs, notes, last, traces); devs / notes = [(trace index, line in trace, kind)]."""
    traces = vlib.split_traces(trace_path)
    n_traces = len(traces)
    n_events = sum(len(t[1]) for t in traces)
    remaining = list(enumerate(traces))
    rejections, devs, notes, last, rounds = [], [], [], None, 0
    while remaining:
        rounds += 1
        cur = os.path.join(vlib.sub("traces"), "%scur%d.ndjson" % (label, rounds))
        offsets = []
        with open(cur, "w") as f:
            n = 0
            for ti, (first, lines) in remaining:
                offsets.append((n + 1, n + len(lines), ti))
                f.writelines(lines)
                n += len(lines)
        found = []
        res = vlib.run_tlc("TraceTransfer", cfg, workers=1, env={"TRACE": cur}, timeout=1800, heap=HEAP,
                           on_scn=lambda doc: found.append(json.loads(doc)))
        last = res

        def locate(line):
            for a, b, ti in offsets:
                if a <= line <= b:
                    return ti, line - a + 1
            return None, None
        if res.ok:
            for d in found:
                ti, ln = locate(d["line"])
                if "dev" in d:
                    devs.append((ti, ln, d["dev"]))
                else:
                    notes.append((ti, ln, d.get("note")))
            break
        if res.rejected_at is None:
            raise vlib.Inconclusive("trace validation failed without a rejection line:\n" + res.output_tail)
        ti, ln = locate(res.rejected_at)
        if ti is None:
            raise vlib.Inconclusive("rejected line %s outside every trace" % res.rejected_at)
        rejections.append({"trace": ti, "line_in_trace": ln, "event": traces[ti][1][ln - 1].strip()})
        remaining = [(i, t) for i, t in remaining if i != ti]
        if len(rejections) >= max_rejections:
            break
    return n_traces, n_events, rejections, sorted(set(devs)), sorted(set(notes)), last, traces


def table_observations(tier, seed):
    """For bin/props/c03.py: a tableobs trace (first line {"op":"reset"}, then one tbl.Obs per line)
    of tables that ObjectReceiver.Receive really stored in seeded random histories."""
    ncases = 12 if tier == "quick" else 60
    out, cases, files = record(seed, ncases, "c03transfer", obs_every=1, adv_every=3)
    if out.errors:
        raise vlib.Inconclusive("transfer recorder: %s" % out.errors[:3])
    if out.crashes or out.timeouts:
        # a crash of the real code belongs to C07's verdict; here there simply is nothing to observe
        vlib.log("transfer recorder: %d crashed / %d timed out cases (see bin/check C07)" % (len(out.crashes), len(out.timeouts)))
    if "tableobs" not in files:
        return None
    return files["tableobs"][0]
